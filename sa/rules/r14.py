"""R14 -- small general rules about iteration, ordering and wiring (added after the fourth wave of
seeded changes; each is a necessary condition stated for the whole package, with the instances found
on the reference tree as floor).

R14a  ``itertools.groupby(X, key=K)`` only groups *adjacent* elements: X must have been sorted by the
      same key K (``sorted(.., key=K)`` / ``.sort(key=K)``); sorted by another key (or not at all) equal
      keys are split over several groups and never compared with each other.
R14b  Removing the *current* element from the list a ``for`` loop iterates shifts the tail left: the
      next element is skipped unless the same block inserts one element at the front (index 0), or
      the loop iterates a copy, or the list removed from is created inside the loop.
R14c  Call order inside one function: every path that calls B has called A before (must-precede on
      the CFG) -- used for ``LogicalCircuit.build_circuit``: smoothing has to see the scopes of the
      un-pruned graph.
R14d  A sum layer is built with the width of what it is wired to: in ``RegionGraph.build_circuit``
      the first argument of every ``sum_factory(a, b)`` / ``SumLayer(a, ..)`` derives from
      ``<x>.num_output_units`` of a layer that the same block registers as its input, or from the
      very unit count that input was constructed with.
"""

from __future__ import annotations

import ast

from ..canon import FlowCanon
from ..cfg import ENTRY, build_cfg
from ..core import Ctx, Ob, ok, unres, viol
from ..flow import LocalDefs
from ..model import dotted, unparse, walk_no_nested

COPY_CALLS = {"list", "tuple", "sorted", "set", "frozenset", "copy", "deepcopy", "reversed", "enumerate", "zip", "range"}


def _norm_key(k: ast.AST | None) -> str:
    """text of a key function with the lambda parameter renamed"""
    if k is None:
        return "<identity>"
    if isinstance(k, ast.Lambda) and len(k.args.args) == 1:
        p = k.args.args[0].arg

        class T(ast.NodeTransformer):
            def visit_Name(self, n: ast.Name) -> ast.AST:
                return ast.Name(id="_x", ctx=n.ctx) if n.id == p else n

        import copy

        return "lambda _x: " + unparse(T().visit(copy.deepcopy(k.body)))
    return unparse(k)


def _kw(c: ast.Call, name: str, pos: int | None = None) -> ast.AST | None:
    for k in c.keywords:
        if k.arg == name:
            return k.value
    if pos is not None and len(c.args) > pos:
        return c.args[pos]
    return None


# ------------------------------------------------------------------------------------------ R14a
def groupby_sorted(ctx: Ctx, modules: tuple[str, ...] = ("cirkit",)) -> list[Ob]:
    out: list[Ob] = []
    n_fn = 0
    for f in ctx.repo.iter_functions():
        if not f.module.name.startswith(modules):
            continue
        n_fn += 1
        calls = [n for n in walk_no_nested(f.node) if isinstance(n, ast.Call) and (dotted(n.func) or "").split(".")[-1] == "groupby"]
        if not calls:
            continue
        ld = LocalDefs(f.node)
        for c in calls:
            site = f"{f.module.relpath}:{c.lineno}"
            if not c.args:
                continue
            key = _norm_key(_kw(c, "key", 1))
            src = c.args[0]
            # follow a singly assigned local
            cands = [src]
            if isinstance(src, ast.Name):
                cands = ld.defs.get(src.id, []) or [src]
            sort_keys: list[str] = []
            for d in cands:
                if isinstance(d, ast.Call) and (dotted(d.func) or "").split(".")[-1] == "sorted":
                    sort_keys.append(_norm_key(_kw(d, "key")))
            if isinstance(src, ast.Name):
                for n in walk_no_nested(f.node):
                    if isinstance(n, ast.Call) and isinstance(n.func, ast.Attribute) and n.func.attr == "sort" and isinstance(n.func.value, ast.Name) and n.func.value.id == src.id:
                        sort_keys.append(_norm_key(_kw(n, "key")))
            inst = f"groupby:{key[:40]}"
            if key in sort_keys:
                out.append(ok("R14a", f.qualname, inst, "the grouped sequence is sorted by the grouping key", site))
            elif sort_keys:
                out.append(viol("R14a", f.qualname, inst, f"groupby(.., key={key}) over a sequence sorted by {sort_keys[0]}: groupby only merges adjacent elements, so elements with equal grouping key that are separated by the other order end up in different groups and are never compared", site))
            else:
                out.append(viol("R14a", f.qualname, inst, f"groupby(.., key={key}) over a sequence that is not sorted by that key in this function: equal keys are only grouped when adjacent", site))
    out.append(ok("R14a", "cirkit", "functions-scanned", f"{n_fn} functions", "", nontrivial=False))
    return out


# ------------------------------------------------------------------------------------------ R14b
def remove_while_iterating(ctx: Ctx, modules: tuple[str, ...] = ("cirkit",)) -> list[Ob]:
    out: list[Ob] = []
    for f in ctx.repo.iter_functions():
        if not f.module.name.startswith(modules):
            continue
        loops = [n for n in walk_no_nested(f.node) if isinstance(n, ast.For) and isinstance(n.target, ast.Name)]
        if not loops:
            continue
        ld = None
        for lp in loops:
            v = lp.target.id
            for blk_owner in ast.walk(lp):
                for field in ("body", "orelse"):
                    blk = getattr(blk_owner, field, None)
                    if not isinstance(blk, list):
                        continue
                    for i, st in enumerate(blk):
                        if not (isinstance(st, ast.Expr) and isinstance(st.value, ast.Call) and isinstance(st.value.func, ast.Attribute) and st.value.func.attr == "remove"):
                            continue
                        c = st.value
                        if not (len(c.args) == 1 and isinstance(c.args[0], ast.Name) and c.args[0].id == v):
                            continue
                        # the innermost loop binding v must be lp
                        X = unparse(c.func.value)
                        site = f"{f.module.relpath}:{st.lineno}"
                        inst = f"remove-current:{X}"
                        if ld is None:
                            ld = LocalDefs(f.node)
                        it = lp.iter
                        it_defs = [it] + (ld.defs.get(it.id, []) if isinstance(it, ast.Name) else [])
                        is_copy = any(
                            (isinstance(d, ast.Call) and ((dotted(d.func) or "").split(".")[-1] in COPY_CALLS or (isinstance(d.func, ast.Attribute) and d.func.attr in ("copy", "keys", "values", "items"))))
                            or (isinstance(d, ast.Subscript) and isinstance(d.slice, ast.Slice))
                            or isinstance(d, (ast.ListComp, ast.GeneratorExp, ast.SetComp, ast.Tuple, ast.List))
                            for d in it_defs
                        )
                        fresh = False
                        if isinstance(c.func.value, ast.Name):
                            for n in ast.walk(lp):
                                if isinstance(n, ast.Assign) and any(isinstance(t, ast.Name) and t.id == c.func.value.id for t in n.targets):
                                    if isinstance(n.value, (ast.List, ast.ListComp)) or (isinstance(n.value, ast.Call) and (dotted(n.value.func) or "") in ("list", "sorted")):
                                        fresh = True
                        if is_copy or fresh:
                            out.append(ok("R14b", f.qualname, inst, "the loop iterates a copy / the list is created inside the loop", site))
                            continue
                        comp = [
                            s2
                            for s2 in blk[i + 1 :]
                            if isinstance(s2, ast.Expr)
                            and isinstance(s2.value, ast.Call)
                            and isinstance(s2.value.func, ast.Attribute)
                            and s2.value.func.attr == "insert"
                            and unparse(s2.value.func.value) == X
                            and s2.value.args
                            and isinstance(s2.value.args[0], ast.Constant)
                            and s2.value.args[0].value == 0
                        ]
                        if comp:
                            out.append(ok("R14b", f.qualname, inst, "the removal of the current element is compensated by an insertion at index 0: the iterator stays aligned", site))
                        else:
                            out.append(viol("R14b", f.qualname, inst, f"`{X}.remove({v})` removes the element the loop over `{unparse(it)}` is standing on and nothing is inserted at the front: the tail shifts left and the element that followed is never visited", site))
    if not out:
        out.append(unres("R14b", "cirkit", "remove-current", "no removal of a loop's current element found in the package", ""))
    return out


# ------------------------------------------------------------------------------------------ R14c
def call_order(ctx: Ctx, fq: str, first: str, second: str, why: str) -> list[Ob]:
    f = ctx.repo.func(fq)
    g = ctx.memo("cfg:" + fq, lambda: build_cfg(f.node))
    from ..cfg import stmt_calls

    def calls(n: int, name: str) -> bool:
        return any((dotted(c.func) or "").split(".")[-1] == name for c in stmt_calls(g.stmts[n]))

    firsts = {n for n in g.stmts if calls(n, first)}
    seconds = [n for n in g.stmts if calls(n, second)]
    inst = f"{first}-before-{second}"
    if not seconds:
        return [ok("R14c", fq, inst, f"{second}() is not called", f.loc, nontrivial=False)]
    if not firsts:
        return [unres("R14c", fq, inst, f"{first}() is not called in this function: no verdict", f.loc)]
    # is some call of `second` reachable from ENTRY without passing a call of `first`?
    reach = g.reachable(ENTRY, blocked=lambda n: n in firsts)
    early = [n for n in seconds if n in reach]
    # paths on which `first` is skipped by a flag (if enforce: first()) are allowed: the obligation is
    # about order, so only report when `second` can run and `first` runs *afterwards*
    late = [n for n in early if any(m in g.reachable(n) for m in firsts)]
    if late:
        return [viol("R14c", fq, inst, f"{second}() can run before {first}() ({g.describe(late[0])}): {why}", f.loc)]
    return [ok("R14c", fq, inst, f"{first}() never runs after {second}()", f.loc)]


# ------------------------------------------------------------------------------------------ R14d
def sum_width_from_input(ctx: Ctx, fq: str = "cirkit.templates.region_graph.graph.RegionGraph.build_circuit") -> list[Ob]:
    f = ctx.repo.func(fq)
    g = ctx.memo("cfg:" + fq, lambda: build_cfg(f.node))
    fc = ctx.memo("flowcanon:" + fq, lambda: FlowCanon(g))
    out: list[Ob] = []
    k = 0
    for n, st in g.stmts.items():
        if isinstance(st, (ast.If, ast.For, ast.While, ast.With, ast.Try, ast.FunctionDef)):
            continue
        for c in ast.walk(st):
            if not (isinstance(c, ast.Call) and (dotted(c.func) or "") in ("sum_factory",) and c.args):
                continue
            k += 1
            site = f"{f.module.relpath}:{c.lineno}"
            a0 = c.args[0]
            inside_comp = None
            for x in ast.walk(st):
                if isinstance(x, (ast.ListComp, ast.GeneratorExp)) and any(y is c for y in ast.walk(x)):
                    inside_comp = x
            width = fc.text(a0, n)
            inst = f"sum-width#{k}"
            if ".num_output_units" in unparse(a0) or ".num_output_units" in width:
                out.append(ok("R14d", fq, inst, f"width taken from the wired input: {unparse(a0)}", site))
                continue
            # otherwise: the same unit count the input layer was built with in this block
            blk_txt = ""
            for m, s2 in g.stmts.items():
                if getattr(s2, "lineno", 0) and abs(getattr(s2, "lineno", 0) - c.lineno) <= 25:
                    blk_txt += unparse(s2) + "\n" if not isinstance(s2, (ast.If, ast.For, ast.While, ast.With, ast.Try, ast.FunctionDef)) else ""
            built_with = [x for x in ast.walk(ast.parse(blk_txt)) if isinstance(x, ast.Call) and "input_factory" in (dotted(x.func) or "") and any(unparse(a) == unparse(a0) for a in x.args)]
            if built_with:
                out.append(ok("R14d", fq, inst, f"width {unparse(a0)} is the unit count the input layer underneath is constructed with", site))
            else:
                out.append(viol("R14d", fq, inst, f"sum_factory({unparse(a0)}, ..) takes its input width from a configuration value, not from the layer it is wired to: with a product factory that does not preserve the width (Kronecker: K**arity) the circuit constructor refuses the result", site))
    if k == 0:
        out.append(unres("R14d", fq, "sum-width", "no sum_factory(..) call found", f.loc))
    return out


# ------------------------------------------------------------------------------------------ R14e
def numpy_scalars_into_scopes(ctx: Ctx, modules: tuple[str, ...] = ("cirkit.templates.region_graph",)) -> list[Ob]:
    """R14e -- variable ids that enter a Scope are Python ints.

    A region graph is saved with ``json``: a scope that contains a ``numpy.int64`` (an element read
    from an ``np.ndarray`` parameter and never converted) builds, validates and compiles like any
    other, but ``RegionGraph.dump`` raises ``TypeError: Object of type int64 is not JSON serializable``
    -- 'saving and loading it preserves it' fails for exactly the graphs whose construction read
    that element.  Flow-sensitive taint: sources are subscripts of parameters annotated ``np.ndarray``
    (and loop variables over them); ``int(..)`` sanitises; sinks are the arguments of ``Scope(..)`` /
    ``RegionNode(..)`` / ``PartitionNode(..)``."""
    out: list[Ob] = []
    for f in ctx.repo.iter_functions():
        if not f.module.name.startswith(modules):
            continue
        arrs = {p.name for p in f.params if p.annotation is not None and "ndarray" in unparse(p.annotation)}
        if not arrs:
            continue
        g = build_cfg(f.node)
        fc = FlowCanon(g)
        n_sinks = 0
        bad = None
        for n, st in g.stmts.items():
            roots = [st] if not isinstance(st, (ast.If, ast.For, ast.While, ast.With, ast.Try, ast.FunctionDef)) else ([st.test] if isinstance(st, (ast.If, ast.While)) else [st.iter] if isinstance(st, ast.For) else [])
            for r in roots:
                for c in ast.walk(r):
                    if isinstance(c, ast.Call) and (dotted(c.func) or "").split(".")[-1] in ("Scope", "RegionNode", "PartitionNode") and c.args:
                        n_sinks += 1
                        ce = fc.expr(c.args[0], n)
                        # any element of an ndarray parameter that is not under int(..)
                        par: dict[int, ast.AST] = {}
                        for x in ast.walk(ce):
                            for ch in ast.iter_child_nodes(x):
                                par[id(ch)] = x
                        for x in ast.walk(ce):
                            is_src = (isinstance(x, ast.Subscript) and isinstance(x.value, ast.Name) and x.value.id in arrs) or (
                                isinstance(x, ast.Call) and isinstance(x.func, ast.Name) and x.func.id == "ELEM" and x.args and isinstance(x.args[0], ast.Name) and x.args[0].id in arrs
                            )
                            if not is_src:
                                continue
                            cur: ast.AST | None = x
                            safe = False
                            while cur is not None:
                                p = par.get(id(cur))
                                if isinstance(p, ast.Call) and isinstance(p.func, ast.Name) and p.func.id in ("int", "len", "range") and cur in p.args:
                                    safe = True
                                    break
                                if isinstance(p, ast.Subscript) and p.slice is cur:
                                    safe = True  # used as an index, not as a member
                                    break
                                if isinstance(p, ast.Compare):
                                    safe = True
                                    break
                                cur = p
                            if not safe and bad is None:
                                bad = (c, unparse(x))
        inst = "scope-members"
        if bad is not None:
            c, src = bad
            out.append(viol("R14e", f.qualname, inst, f"`{unparse(c)[:60]}` can receive `{src}` -- an element of the numpy array parameter, a numpy integer -- as a variable id without int(..): the region graph builds and compiles, but RegionGraph.dump raises TypeError (not JSON serializable)", f"{f.module.relpath}:{c.lineno}"))
        elif n_sinks:
            out.append(ok("R14e", f.qualname, inst, f"{n_sinks} scope construction(s): array elements are converted with int(..) before they become variable ids", f.loc))
        else:
            out.append(unres("R14e", f.qualname, inst, "a function with an ndarray parameter that builds no scope", f.loc))
    if not out:
        out.append(unres("R14e", "cirkit.templates.region_graph", "scope-members", "no function with an np.ndarray parameter found", ""))
    return out


# ------------------------------------------------------------------------------------------ R14f
NONCONTIG = {"permute", "transpose", "einsum", "expand", "expand_as", "movedim", "swapaxes", "narrow", "t", "T", "mT", "unbind", "chunk", "split"}


def view_of_noncontiguous(ctx: Ctx, modules: tuple[str, ...] = ("cirkit.backend.torch.layers", "cirkit.backend.torch.semiring", "cirkit.backend.torch.queries", "cirkit.backend.torch.circuits")) -> list[Ob]:
    """R14f -- ``Tensor.view`` needs compatible strides.

    ``view`` raises ('view size is not compatible with input tensor's size and stride') when the tensor
    is not contiguous in the merged axes.  The result of ``einsum`` / ``permute`` / ``transpose`` /
    ``expand`` is in general not contiguous -- for *some* sizes it is (which is why such code passes
    its tests): a ``.view(..)`` applied directly to such a result, without ``.contiguous()``, fails
    for the other sizes (a TensorDot layer whose contracted size is 1).  ``reshape`` is the size-
    independent spelling."""
    out: list[Ob] = []
    n_views = 0
    for f in ctx.repo.iter_functions():
        if not f.module.name.startswith(modules):
            continue
        views = [n for n in walk_no_nested(f.node) if isinstance(n, ast.Call) and isinstance(n.func, ast.Attribute) and n.func.attr == "view"]
        if not views:
            continue
        ld = LocalDefs(f.node)
        for v in views:
            n_views += 1
            recv = v.func.value
            defs = [recv]
            if isinstance(recv, ast.Name):
                ds = ld.defs.get(recv.id, [])
                # the definition that textually precedes the view (flow-insensitive otherwise)
                ds = [d for d in ds if getattr(d, "lineno", 0) <= v.lineno]
                defs = ds[-1:] if ds else [recv]
            site = f"{f.module.relpath}:{v.lineno}"
            inst = f"view:{unparse(recv)[:30]}"
            prod = None
            for d in defs:
                if isinstance(d, ast.Call) and isinstance(d.func, ast.Attribute) and d.func.attr in NONCONTIG:
                    prod = d.func.attr
                if isinstance(d, ast.Attribute) and d.attr in NONCONTIG:
                    prod = d.attr
            if prod:
                out.append(viol("R14f", f.qualname, inst, f"`{unparse(v)[:60]}` views the result of {prod}(..) without .contiguous(): the strides of that result depend on the sizes, so for some configurations (e.g. a contracted or batch size of 1) evaluation raises RuntimeError; reshape() is size-independent", site))
            else:
                out.append(ok("R14f", f.qualname, inst, "not the direct result of a stride-changing operation", site, nontrivial=False))
    out.append(ok("R14f", "cirkit.backend.torch", "views-scanned", f"{n_views} view(..) calls", "", nontrivial=(n_views > 0)))
    return out


# ------------------------------------------------------------------------------------------ R14g
def _pair_lists(fn: ast.AST) -> list[ast.AST]:
    """the expressions bound to the list of layer pairs a product layer multiplies (`next_to_multiply = ..`)"""
    out = []
    for n in ast.walk(fn):
        if isinstance(n, ast.Assign) and len(n.targets) == 1 and isinstance(n.targets[0], ast.Name) and "multiply" in n.targets[0].id:
            out.append(n.value)
    return out


def product_input_order(ctx: Ctx, fq: str = "cirkit.symbolic.functional.multiply") -> list[Ob]:
    """R14g -- the product of two product layers lists its inputs in the operands' declared order.

    ``multiply`` has to *match* the inputs of two product layers by scope; if it does so by sorting
    both input lists and wiring the product block in the sorted order, an order-sensitive product
    layer (Kronecker: unit (i, j) = input0[i] * input1[j]) whose inputs are not declared by increasing
    scope gets its factors in another order than the operand it came from, and every layer above
    reads the wrong units.  The list that becomes ``in_blocks[<product block>]`` must not derive from
    ``sorted(..)`` / ``.sort()`` of a layer's inputs."""
    f = ctx.repo.func(fq)
    g = ctx.memo("cfg:" + fq, lambda: build_cfg(f.node))
    fc = ctx.memo("flowcanon:" + fq, lambda: FlowCanon(g))
    out: list[Ob] = []
    for n, st in g.stmts.items():
        if not isinstance(st, ast.Assign):
            continue
        for t in st.targets:
            if isinstance(t, ast.Subscript) and unparse(t.value) == "in_blocks":
                c = fc.text(st.value, n)
                site = f"{f.module.relpath}:{st.lineno}"
                key = fc.text(t.slice, n)
                if "retrieve_rule" not in key and "func(" not in key and "prod_block" not in unparse(t.slice):
                    continue  # only the block produced by a product rule
                # where do the *first components* of the pairs come from?  `[(l1_inputs[i], ..) for i in range(len(l1_inputs))]`
                # (declared order, whatever is used to find the partner) is fine; a zip over sorted lists is not
                declared = False
                sorted_iter = False
                ld = LocalDefs(f.node)
                for d in _pair_lists(f.node):
                    if isinstance(d, ast.ListComp) and len(d.generators) == 1 and isinstance(d.elt, ast.Tuple) and d.elt.elts:
                        it_c = fc.text(d.generators[0].iter, n)
                        first_c = fc.text(d.elt.elts[0], n)
                        it_all = " ".join(unparse(x) for x in ld.expand(d.generators[0].iter))
                        if "sorted(" in it_c or "sorted(" in it_all:
                            sorted_iter = True
                        elif "sorted(" not in first_c.split("[ELEM", 1)[0] and "layer_inputs(" in first_c:
                            declared = True
                    elif isinstance(d, ast.Call) and "zip" in unparse(d.func) and "sorted(" in " ".join(unparse(x) for a in d.args for x in ld.expand(a)):
                        sorted_iter = True
                if sorted_iter:
                    out.append(viol("R14g", fq, "product-input-order", "the pairs of inputs a product layer multiplies are enumerated in a *sorted* order (the generator ranges over sorted ranks / sorted inputs), and the product block is wired in that order: a Kronecker layer whose inputs are not declared by increasing scope is multiplied into a layer whose units are in another order", site))
                elif declared:
                    out.append(ok("R14g", fq, "product-input-order", "the pairs are listed in the declared order of the first operand's inputs (sorting is only used to find the partner)", site))
                elif "sorted(" in c and "layer_inputs(" in c:
                    out.append(viol("R14g", fq, "product-input-order", "the inputs of the product block are wired in the order of `sorted(<layer inputs>, key=scope)`, not in the declared order of the operand's inputs: a Kronecker layer whose inputs are not listed by increasing scope (or with evidence on a later input: the empty scope sorts first) is multiplied into a layer whose units are in another order, and the product evaluates to wrong values without an error", site))
                else:
                    out.append(ok("R14g", fq, "product-input-order", "the product block's inputs follow the operand's declared input order", site))
    if not out:
        out.append(unres("R14g", fq, "product-input-order", "no wiring of a product-rule block found", f.loc))
    return out


# ------------------------------------------------------------------------------------------ R14h
def scope_keyed_inputs(ctx: Ctx, modules: tuple[str, ...] = ("cirkit.symbolic.functional",)) -> list[Ob]:
    """R14h -- the inputs of a layer are not indexed by their scopes.

    The scopes of the inputs of one layer need not be distinct: a sum has same-scope inputs by
    definition, and after ``evidence`` several inputs of a product have the *empty* scope.  A mapping
    ``{scope_of(x): x for x in <layer inputs>}`` silently keeps one input per scope and drops the rest
    (every empty-scope input of one operand is then multiplied with the same input of the other).
    In the operator drivers, no dict / dict comprehension keyed by ``layer_scope(..)`` / ``.scope`` may
    range over a layer's inputs."""
    out: list[Ob] = []
    n_fn = 0
    for f in ctx.repo.iter_functions():
        if f.module.name not in modules:
            continue
        n_fn += 1
        g = build_cfg(f.node)
        fc = FlowCanon(g)
        for n, st in g.stmts.items():
            roots = [st] if not isinstance(st, (ast.If, ast.For, ast.While, ast.With, ast.Try, ast.FunctionDef)) else ([st.test] if isinstance(st, (ast.If, ast.While)) else [st.iter] if isinstance(st, ast.For) else [])
            for r in roots:
                for c in ast.walk(r):
                    if isinstance(c, ast.DictComp) and len(c.generators) >= 1:
                        key_t = unparse(c.key)
                        it_c = fc.text(c.generators[0].iter, n)
                        if ("layer_scope(" in key_t or key_t.endswith(".scope")) and ("layer_inputs(" in it_c or "sorted(" in it_c and "layer_inputs" in it_c):
                            out.append(viol("R14h", f.qualname, "inputs-by-scope", f"`{unparse(c)[:70]}` indexes the inputs of a layer by their scopes: inputs with equal scopes (several observed inputs of one product layer all have the empty scope) collide on the key, one survives and the others are silently dropped from the operator's result", f"{f.module.relpath}:{c.lineno}"))
    out.append(ok("R14h", "cirkit.symbolic.functional", "inputs-by-scope", f"{n_fn} operator drivers scanned: no scope-keyed mapping over a layer's inputs", "", nontrivial=(n_fn > 0)))
    return out


# ------------------------------------------------------------------------------------------ R14i
INPLACE_OPS = {"iconcat", "iadd", "ior", "iand", "imul", "ixor", "isub"}


def inplace_reduce(ctx: Ctx, modules: tuple[str, ...] = ("cirkit",)) -> list[Ob]:
    """R14i -- a reduce with an in-place operator owns its accumulator.

    ``functools.reduce(operator.iconcat, seqs)`` without an initial value uses the *first element* of
    ``seqs`` as the accumulator and extends it in place: whoever still holds that list (a mapping from
    layers to their blocks, read again for the outputs) sees it grown by everything else.  With an
    initial value (``reduce(operator.iconcat, seqs, [])``) the accumulator is private."""
    out: list[Ob] = []
    n = 0
    for f in ctx.repo.iter_functions():
        if not f.module.name.startswith(modules):
            continue
        for c in walk_no_nested(f.node):
            if isinstance(c, ast.Call) and (dotted(c.func) or "").split(".")[-1] == "reduce" and c.args:
                op = (dotted(c.args[0]) or "").split(".")[-1]
                if op not in INPLACE_OPS:
                    continue
                n += 1
                site = f"{f.module.relpath}:{c.lineno}"
                has_init = len(c.args) >= 3 or any(k.arg == "initial" for k in c.keywords)
                if has_init:
                    out.append(ok("R14i", f.qualname, f"reduce:{op}", "in-place reduce with its own initial accumulator", site))
                else:
                    out.append(viol("R14i", f.qualname, f"reduce:{op}", f"`{unparse(c)[:70]}` extends the first element of its argument in place (no initial value): the list stored for the first key of the mapping now contains every other element, and whatever reads that list afterwards (the outputs of the derived circuit) gets them all", site))
    out.append(ok("R14i", "cirkit", "in-place-reduces", f"{n} in-place reduce(s) in the package", "", nontrivial=False))
    return out


# ------------------------------------------------------------------------------------------ R14j
def mst_zero_edges(ctx: Ctx, modules: tuple[str, ...] = ("cirkit.templates.region_graph",)) -> list[Ob]:
    """R14j -- a dense matrix handed to ``scipy.sparse.csgraph`` has no zero weights between nodes.

    ``csgraph`` reads the zero entries of a *dense* matrix as missing edges.  A maximum spanning tree
    computed as the minimum spanning tree of the negated weights therefore has to shift non-negative
    weights (mutual information can be exactly 0 for independent features) away from zero first --
    ``-(M + c)`` with a positive constant -- or the graph is disconnected for exactly the data sets
    with an independent pair and the returned 'tree' contains scipy's -9999 predecessors."""
    out: list[Ob] = []
    for f in ctx.repo.iter_functions():
        if not f.module.name.startswith(modules):
            continue
        ld = None
        for c in walk_no_nested(f.node):
            if isinstance(c, ast.Call) and (dotted(c.func) or "").split(".")[-1] == "minimum_spanning_tree" and c.args:
                if ld is None:
                    ld = LocalDefs(f.node)
                a = c.args[0]
                if isinstance(a, ast.Name) and len(ld.defs.get(a.id, [])) == 1:
                    a = ld.defs[a.id][0]
                site = f"{f.module.relpath}:{c.lineno}"
                if isinstance(a, ast.UnaryOp) and isinstance(a.op, ast.USub):
                    inner = a.operand
                    shifted = isinstance(inner, ast.BinOp) and isinstance(inner.op, ast.Add) and any(isinstance(x, ast.Constant) and isinstance(x.value, (int, float)) and x.value > 0 for x in (inner.left, inner.right))
                    if shifted:
                        out.append(ok("R14j", f.qualname, "mst-weights", "the negated weights are shifted by a positive constant: no zero entry is read as a missing edge", site))
                    else:
                        out.append(viol("R14j", f.qualname, "mst-weights", f"`{unparse(c)[:70]}` negates the weights without shifting them: a weight of exactly 0 (independent features) is a zero entry of the dense matrix, which scipy.sparse.csgraph reads as 'no edge' -- the spanning forest is disconnected and the tree contains -9999 predecessors", site))
                else:
                    out.append(unres("R14j", f.qualname, "mst-weights", f"weights passed as `{unparse(a)[:50]}`: not the negated-dense form, no verdict", site))
    if not out:
        out.append(unres("R14j", "cirkit.templates.region_graph", "mst-weights", "no minimum_spanning_tree call found", ""))
    return out


# ------------------------------------------------------------------------------------------ R14k
def signed_id_keys(ctx: Ctx, modules: tuple[str, ...] = ("cirkit.templates.logic",)) -> list[Ob]:
    """R14k -- polarity is not encoded in the sign of a variable id.

    Variable ids are 0-based everywhere in cirkit, and ``-0 == 0``: a table keyed by ``+v`` for the
    positive and ``-v`` for the negated literal gives both literals of variable 0 the same key (the
    smoothing node of x0 becomes (x0 or x0)).  In the logic package no arithmetic negation is applied
    to a literal's variable id (``-node.literal``) or to a variable id used as a key."""
    out: list[Ob] = []
    n_fn = 0
    for f in ctx.repo.iter_functions():
        if not f.module.name.startswith(modules):
            continue
        n_fn += 1
        for n in walk_no_nested(f.node):
            if isinstance(n, ast.UnaryOp) and isinstance(n.op, ast.USub):
                o = n.operand
                if isinstance(o, ast.Attribute) and o.attr in ("literal", "var", "variable"):
                    out.append(viol("R14k", f.qualname, "signed-id", f"`{unparse(n)}` encodes the negated literal of a variable as the negative of its id: variable 0 is its own negation, so x0 and not-x0 collide", f"{f.module.relpath}:{n.lineno}"))
    out.append(ok("R14k", "cirkit.templates.logic", "signed-id", f"{n_fn} functions scanned: no negated variable id", "", nontrivial=(n_fn > 0)))
    return out


# ------------------------------------------------------------------------------------------ R14l / R14m
def zip_of_orderings(ctx: Ctx, modules: tuple[str, ...] = ("cirkit.backend",)) -> list[Ob]:
    """R14l -- per-graph orderings are merged without truncation.

    ``zip`` stops at its shortest argument.  Merging the layer-wise orderings of several parameter
    graphs (or circuits) frontier by frontier with ``zip(*orderings)`` silently drops the upper
    frontiers of every graph deeper than the shallowest one: their output nodes are never folded and
    ``fold=True`` fails for a fold group whose layers have parameter graphs of different depth."""
    out: list[Ob] = []
    n = 0
    for f in ctx.repo.iter_functions():
        if not f.module.name.startswith(modules):
            continue
        for c in walk_no_nested(f.node):
            if isinstance(c, ast.Call) and isinstance(c.func, ast.Name) and c.func.id == "zip":
                txt = unparse(c)
                if "topological_ordering(" in txt:
                    n += 1
                    out.append(viol("R14l", f.qualname, "zip-orderings", f"`{txt[:70]}` merges orderings of several graphs with zip, which truncates to the shallowest graph: the top frontiers (the outputs) of deeper graphs are dropped", f"{f.module.relpath}:{c.lineno}"))
    out.append(ok("R14l", "cirkit.backend", "zip-orderings", "no zip over topological orderings", "", nontrivial=False))
    return out


def selection_bookkeeping(ctx: Ctx, fq: str = "cirkit.backend.torch.graph.optimize._prioritize_optimization_strategy") -> list[Ob]:
    """R14m -- the 'already selected?' test of the match prioritisation sees every selection.

    The function keeps one match per module; a module with several candidate matches first asks
    whether one of them has *already been selected* for another module.  The collection that test
    consults must contain every selection made so far: the result mapping itself (``.values()``), or
    a set that is updated in the same block as every store into the result mapping.  A set filled in
    one branch only (not for modules with a single match) lets two overlapping matches both survive:
    both rewrites are applied and the optimised circuit computes W3 W2 W2 W1 x instead of W3 W2 W1 x."""
    f = ctx.repo.func(fq)
    rets = [r.value for r in walk_no_nested(f.node) if isinstance(r, ast.Return) and isinstance(r.value, ast.Name)]
    if not rets:
        return [unres("R14m", fq, "selected-set", "the function does not return a named mapping", f.loc)]
    res = rets[0].id
    tests = []
    for n in ast.walk(f.node):
        if isinstance(n, ast.Compare) and len(n.ops) == 1 and isinstance(n.ops[0], (ast.In, ast.NotIn)):
            tests.append(n)
    consulted = [t for t in tests if "matches" in unparse(t.comparators[0]) or "selected" in unparse(t.comparators[0])]
    out: list[Ob] = []
    stores = []
    blocks: list[list[ast.stmt]] = []
    for owner in ast.walk(f.node):
        for field in ("body", "orelse"):
            blk = getattr(owner, field, None)
            if isinstance(blk, list):
                blocks.append(blk)
    for t in consulted:
        coll = t.comparators[0]
        ctxt = unparse(coll)
        site = f"{f.module.relpath}:{t.lineno}"
        if res in ctxt:
            out.append(ok("R14m", fq, "selected-set", f"the test consults the result mapping itself (`{ctxt}`)", site))
            continue
        if not isinstance(coll, ast.Name):
            continue
        S = coll.id
        good = False
        found_store = False
        for blk in blocks:
            has_store = any(isinstance(s, ast.Assign) and any(isinstance(tg, ast.Subscript) and unparse(tg.value) == res for tg in s.targets) for s in blk)
            if not has_store:
                continue
            found_store = True
            has_add = any(isinstance(s, ast.Expr) and isinstance(s.value, ast.Call) and isinstance(s.value.func, ast.Attribute) and unparse(s.value.func.value) == S and s.value.func.attr in ("add", "append", "update") for s in blk)
            good = has_add
        if found_store and good:
            out.append(ok("R14m", fq, "selected-set", f"`{S}` is updated next to every store into {res}", site))
        elif found_store:
            out.append(viol("R14m", fq, "selected-set", f"the 'already selected' test consults `{S}`, which is not updated in the block that stores every selection into {res} (it is filled in one branch only): a module with a single match is selected without being recorded, so a later module can select an overlapping match and both rewrites are applied", site))
    if not out:
        out.append(unres("R14m", fq, "selected-set", "no membership test on a collection of selected matches found", f.loc))
    return out


# ------------------------------------------------------------------------------------------ R14n / R14p
def sampling_weight_guard(ctx: Ctx) -> list[Ob]:
    """R14n -- sampling refuses negative weights, not zero weights.

    A sum layer can be sampled when its weights are non-negative and normalised.  Mixing layers have
    *structural* zeros (most entries of the H*K columns of a row are exactly 0), sparse mixtures too:
    a refusal stated as 'not all weights > 0' (or 'any weight <= 0') makes the sampling query raise
    for every such circuit although it encodes a valid distribution.  In every ``sample`` of an inner
    layer, a sign test of the weight against 0 is ``< 0`` (some entry negative) or its negation."""
    out: list[Ob] = []
    inner = ctx.repo.cls("cirkit.backend.torch.layers.inner.TorchInnerLayer")
    for c in ctx.repo.subclasses(inner):
        m = c.methods.get("sample")
        if m is None:
            continue
        for n in walk_no_nested(m.node):
            if isinstance(n, ast.Compare) and len(n.ops) == 1 and isinstance(n.comparators[0], ast.Constant) and n.comparators[0].value in (0, 0.0) and "weight" in unparse(n.left):
                site = f"{m.module.relpath}:{n.lineno}"
                op = type(n.ops[0])
                if op in (ast.Lt, ast.GtE):
                    out.append(ok("R14n", m.qualname, "sign-test", f"`{unparse(n)}`: zero weights are admitted", site))
                elif op in (ast.Gt, ast.LtE):
                    out.append(viol("R14n", m.qualname, "sign-test", f"`{unparse(n)}` separates strictly positive weights from the rest: a weight of exactly 0 (the structural zeros of a mixing layer, a sparse mixture) makes sampling refuse a circuit that encodes a valid distribution", site))
    if not out:
        out.append(unres("R14n", "cirkit.backend.torch.layers", "sign-test", "no sign test of the weights in any sample()", ""))
    return out


INT_CAPACITY = {"int8": 128, "uint8": 256, "int16": 32768, "char": 128, "byte": 256, "short": 32768}


def narrowing_casts(ctx: Ctx, modules: tuple[str, ...] = ("cirkit.backend.torch.layers", "cirkit.backend.torch.queries")) -> list[Ob]:
    """R14p -- samples are not cast to an integer type that cannot hold every category.

    ``int8`` holds 0..127, ``uint8`` 0..255: a 'compact' cast of category indices guarded by
    ``num_categories <= 256`` wraps the categories 128..255 to negative numbers without any error
    (image data has 256 intensities).  A narrowing cast in ``sample`` / the sampling query is allowed
    only under a guard ``<count> <= K`` with K within the capacity of the target type."""
    out: list[Ob] = []
    n_fn = 0
    for f in ctx.repo.iter_functions():
        if not f.module.name.startswith(modules) or not ("sample" in f.name):
            continue
        n_fn += 1
        par: dict[int, ast.AST] = {}
        for x in ast.walk(f.node):
            for ch in ast.iter_child_nodes(x):
                par[id(ch)] = x
        for c in walk_no_nested(f.node):
            tgt = None
            if isinstance(c, ast.Call) and isinstance(c.func, ast.Attribute) and c.func.attr in ("to", "type", "astype") and c.args:
                d = (dotted(c.args[0]) or "").split(".")[-1]
                if d in INT_CAPACITY:
                    tgt = d
            if isinstance(c, ast.Call) and isinstance(c.func, ast.Attribute) and c.func.attr in ("char", "byte", "short") and not c.args:
                tgt = c.func.attr
            if tgt is None:
                continue
            cap = INT_CAPACITY[tgt]
            site = f"{f.module.relpath}:{c.lineno}"
            # enclosing guard  <expr> <= K  /  <expr> < K
            bound = None
            cur: ast.AST | None = c
            while cur is not None and cur is not f.node:
                up = par.get(id(cur))
                if isinstance(up, ast.If) and any(cur is b for b in up.body):
                    for t in ast.walk(up.test):
                        if isinstance(t, ast.Compare) and len(t.ops) == 1 and isinstance(t.comparators[0], ast.Constant) and isinstance(t.comparators[0].value, int):
                            k = t.comparators[0].value
                            if isinstance(t.ops[0], ast.LtE):
                                bound = k
                            elif isinstance(t.ops[0], ast.Lt):
                                bound = k - 1
                cur = up
            if bound is None:
                out.append(viol("R14p", f.qualname, f"narrow:{tgt}", f"`{unparse(c)[:60]}` narrows sampled values to {tgt} (capacity {cap}) without a guard on the number of categories", site))
            elif bound > cap:
                out.append(viol("R14p", f.qualname, f"narrow:{tgt}", f"`{unparse(c)[:60]}` narrows sampled category indices to {tgt}, which holds {cap} values, under a guard that admits up to {bound} categories: the categories from {cap} on wrap around (negative / wrong indices) without an error", site))
            else:
                out.append(ok("R14p", f.qualname, f"narrow:{tgt}", f"guarded by a bound of {bound} <= {cap}", site))
    out.append(ok("R14p", "cirkit.backend.torch", "narrowing-casts", f"{n_fn} sampling functions scanned", "", nontrivial=False))
    return out


# ------------------------------------------------------------------------------------------ R14q
def _poly(e: ast.AST, env: dict[str, "Dim"], ld: LocalDefs, depth: int = 3):
    """an integer expression as a polynomial over symbols (attribute chains and loop variables)"""
    from ..dims import Dim

    if isinstance(e, ast.Constant) and isinstance(e.value, int) and not isinstance(e.value, bool):
        return Dim.const(e.value)
    if isinstance(e, ast.Name):
        if e.id in env:
            return env[e.id]
        defs = [d for d in ld.defs.get(e.id, []) if isinstance(d, ast.expr)]
        if len(defs) == 1 and depth > 0:
            return _poly(defs[0], env, ld, depth - 1)
        return None
    if isinstance(e, ast.Attribute):
        d = dotted(e)
        return Dim.sym(d) if d else None
    if isinstance(e, ast.BinOp) and isinstance(e.op, (ast.Add, ast.Sub, ast.Mult)):
        l, r = _poly(e.left, env, ld, depth), _poly(e.right, env, ld, depth)
        if l is None or r is None:
            return None
        return l + r if isinstance(e.op, ast.Add) else l - r if isinstance(e.op, ast.Sub) else l * r
    return None


def kronecker_sum_weight_layout(ctx: Ctx, fq: str = "cirkit.symbolic.operators.multiply_sum_layers") -> list[Ob]:
    """R14q -- the weight of the product of two sum layers is laid out as its inputs are.

    ``multiply`` gives the product of two sum layers the products of all pairs of their inputs,
    first operand major (``itertools.product(l1_inputs, l2_inputs)``), each with the units
    (i1, i2): column ``((a1*H2 + a2)*K1 + i1)*K2 + i2``.  The Kronecker product of the two weights has
    its columns at ``(a1*K1 + i1)*(H2*K2) + a2*K2 + i2``.  The two agree only when K1 == 1 or H2 == 1;
    a rule that builds a sum layer of arity H1*H2 from the Kronecker product must therefore re-index
    the columns (an IndexParameter on the column axis whose i-th entry, for the i-th tuple
    (a1, a2, i1, i2) in that nesting order, is the Kronecker column -- decided as a polynomial
    identity), or refuse arities above one."""
    from ..dims import Dim

    f = ctx.repo.func(fq)
    ld = LocalDefs(f.node)
    ps = [p.name for p in f.params if p.kind == "pos"]
    if len(ps) < 2:
        raise AnalysisError(f"R14q: {fq} no longer takes two layers")
    p1, p2 = ps[0], ps[1]
    out: list[Ob] = []
    uses_kron = any(isinstance(n, ast.Call) and (dotted(n.func) or "").split(".")[-1] == "KroneckerParameter" for n in ast.walk(f.node))
    sums = [n for n in ast.walk(f.node) if isinstance(n, ast.Call) and (dotted(n.func) or "").split(".")[-1] == "SumLayer"]
    if not uses_kron or not sums:
        return [unres("R14q", f.qualname, "kronecker-columns", "the rule no longer builds a SumLayer from a KroneckerParameter (another formulation): no verdict", f.loc)]
    nary = False
    for c in sums:
        for k in c.keywords:
            if k.arg == "arity" and not (isinstance(k.value, ast.Constant) and k.value.value == 1):
                nary = True
    refuses = any(
        isinstance(n, ast.If) and any(isinstance(b, ast.Raise) for b in n.body) and any(isinstance(x, ast.Attribute) and x.attr == "arity" for x in ast.walk(n.test))
        for n in ast.walk(f.node)
    )
    if not nary or refuses:
        return [ok("R14q", f.qualname, "kronecker-columns", "the product sum layer has arity one, or arities above one are refused", f.loc)]
    idx_calls = [n for n in ast.walk(f.node) if isinstance(n, ast.Call) and (dotted(n.func) or "").split(".")[-1] == "IndexParameter"]
    if not idx_calls:
        return [viol("R14q", f.qualname, "kronecker-columns", "the product of two n-ary sum layers takes the Kronecker product of the weights as it is: its columns are ordered (a1, i1, a2, i2) while the inputs of the product layer are the pairs (a1, a2) with units (i1, i2) -- for K1 > 1 and H2 > 1 the weights are applied to the wrong input units (two tensor-train circuits multiply to a different function)", f.loc)]
    H1, K1, H2, K2 = (Dim.sym(f"{p1}.arity"), Dim.sym(f"{p1}.num_input_units"), Dim.sym(f"{p2}.arity"), Dim.sym(f"{p2}.num_input_units"))
    for c in idx_calls:
        loc = f"{f.module.relpath}:{c.lineno}"
        kw = {k.arg: k.value for k in c.keywords}
        axis = kw.get("axis")
        if axis is None or (isinstance(axis, ast.Constant) and axis.value in (1, -1)):
            out.append(ok("R14q", f.qualname, "kronecker-columns:axis", "re-indexes the columns (the last axis of the (Ko, H*Ki) weight)", loc))
        elif isinstance(axis, ast.Constant):
            out.append(viol("R14q", f.qualname, "kronecker-columns:axis", f"the re-indexing acts on axis {axis.value}: the input-unit columns of a sum weight are axis 1", loc))
        else:
            out.append(unres("R14q", f.qualname, "kronecker-columns:axis", "axis is not a literal: no verdict", loc))
        # the conditions under which the re-indexing is skipped: only K1 == 1 or H2 == 1 are harmless
        par: dict[int, ast.AST] = {}
        for n in ast.walk(f.node):
            for ch in ast.iter_child_nodes(n):
                par[id(ch)] = n
        cur: ast.AST | None = c
        conj: list[ast.AST] = []
        odd = False
        while cur is not None and cur is not f.node:
            up = par.get(id(cur))
            if isinstance(up, ast.If):
                if any(cur is b for b in up.body):
                    conj += up.test.values if isinstance(up.test, ast.BoolOp) and isinstance(up.test.op, ast.And) else [up.test]
                elif any(cur is b for b in up.orelse):
                    odd = True
            cur = up
        harmless = {f"{p1}.num_input_units", f"{p2}.arity"}
        bad = []
        for t in conj:
            good = (
                isinstance(t, ast.Compare) and len(t.ops) == 1 and dotted(t.left) in harmless and isinstance(t.comparators[0], ast.Constant)
                and ((isinstance(t.ops[0], (ast.Gt, ast.NotEq)) and t.comparators[0].value == 1) or (isinstance(t.ops[0], ast.GtE) and t.comparators[0].value == 2))
            )
            if not good:
                bad.append(unparse(t))
        if odd:
            out.append(unres("R14q", f.qualname, "kronecker-columns:when", "the re-indexing sits in an else branch: no verdict", loc))
        elif bad:
            out.append(viol("R14q", f.qualname, "kronecker-columns:when", f"the re-indexing is skipped unless `{' and '.join(bad)}`: the two layouts differ whenever {p1}.num_input_units > 1 and {p2}.arity > 1, whatever else holds", loc))
        else:
            out.append(ok("R14q", f.qualname, "kronecker-columns:when", "skipped only when K1 == 1 or H2 == 1, where the two layouts coincide", loc))
        ind = kw.get("indices")
        comp = None
        if ind is not None:
            cands = [ind] if isinstance(ind, ast.ListComp) else [d for d in (ld.defs.get(ind.id, []) if isinstance(ind, ast.Name) else []) if isinstance(d, ast.ListComp)]
            comp = cands[0] if len(cands) == 1 else None
        if comp is None:
            out.append(unres("R14q", f.qualname, "kronecker-columns:indices", "the indices are not a single list comprehension: no verdict", loc))
            continue
        env: dict[str, Dim] = {}
        bounds: list[Dim | None] = []
        vars_: list[str] = []
        okc = True
        for g in comp.generators:
            if not (isinstance(g.target, ast.Name) and isinstance(g.iter, ast.Call) and isinstance(g.iter.func, ast.Name) and g.iter.func.id == "range" and len(g.iter.args) == 1 and not g.ifs):
                okc = False
                break
            vars_.append(g.target.id)
            bounds.append(_poly(g.iter.args[0], {}, ld))
            env[g.target.id] = Dim.sym("loop:" + g.target.id)
        if not okc or len(vars_) != 4 or any(b is None for b in bounds):
            out.append(unres("R14q", f.qualname, "kronecker-columns:indices", "the comprehension is not four nested `for v in range(<size>)`: no verdict", loc))
            continue
        elt = _poly(comp.elt, env, ld)
        if elt is None:
            out.append(unres("R14q", f.qualname, "kronecker-columns:indices", "the index expression is not a polynomial of the loop variables: no verdict", loc))
            continue
        # which loop variable ranges over which size; the expected nesting is (H1, H2, K1, K2)
        want_b = [H1, H2, K1, K2]
        if bounds != want_b:
            out.append(viol("R14q", f.qualname, "kronecker-columns:indices", f"the positions are enumerated over ({', '.join(repr(b) for b in bounds)}): the inputs of the product sum layer are enumerated as ({p1}.arity, {p2}.arity, {p1}.num_input_units, {p2}.num_input_units) -- pairs of inputs first, first operand major, then the units of the pair", loc))
            continue
        a1, a2, i1, i2 = (env[v] for v in vars_)
        want = (a1 * K1 + i1) * (H2 * K2) + a2 * K2 + i2
        if elt == want:
            out.append(ok("R14q", f.qualname, "kronecker-columns:indices", "position (a1, a2, i1, i2) reads Kronecker column (a1*K1 + i1)*(H2*K2) + a2*K2 + i2 (polynomial identity)", loc))
        else:
            out.append(viol("R14q", f.qualname, "kronecker-columns:indices", f"position (a1, a2, i1, i2) reads column {elt!r}, the Kronecker product holds that entry at {want!r}", loc))
    out += _sum_pairs_first_operand_major(ctx)
    return out


def _sum_pairs_first_operand_major(ctx: Ctx, fq: str = "cirkit.symbolic.functional.multiply") -> list[Ob]:
    """the other half of R14q: `multiply` enumerates the pairs of inputs of two sum layers as
    itertools.product(<inputs of the first operand's layer>, <inputs of the second's>) -- the order the
    re-indexed weight assumes"""
    f = ctx.repo.func(fq)
    ps = [p.name for p in f.params if p.kind == "pos"]
    ld = LocalDefs(f.node)
    out: list[Ob] = []

    def operand(e: ast.AST) -> int | None:
        seen = set()
        work = [e]
        hits: set[int] = set()
        for _ in range(4):
            nxt = []
            for x in work:
                for n in ast.walk(x):
                    if isinstance(n, ast.Name):
                        if n.id in ps[:2]:
                            hits.add(ps.index(n.id))
                        elif n.id not in seen:
                            seen.add(n.id)
                            nxt += [d for d in ld.defs.get(n.id, []) if isinstance(d, ast.expr)]
            if hits:
                break
            work = nxt
        return next(iter(hits)) if len(hits) == 1 else None

    for n in ast.walk(f.node):
        if isinstance(n, ast.Call) and (dotted(n.func) or "").split(".")[-1] == "product" and len(n.args) == 2 and not n.keywords:
            # the pairs of *inputs* (not of the circuits' outputs): both arguments derive from layer_inputs
            if not all(any(isinstance(c, ast.Call) and isinstance(c.func, ast.Attribute) and c.func.attr == "layer_inputs" for ex in [a, *ld.expand(a)] for c in ast.walk(ex)) for a in n.args):
                continue
            o1, o2 = operand(n.args[0]), operand(n.args[1])
            loc = f"{f.module.relpath}:{n.lineno}"
            if (o1, o2) == (0, 1):
                out.append(ok("R14q", f.qualname, "sum-pairs:first-operand-major", f"`{unparse(n)[:60]}`: pairs enumerated first operand major", loc))
            elif (o1, o2) == (1, 0):
                out.append(viol("R14q", f.qualname, "sum-pairs:first-operand-major", f"`{unparse(n)[:60]}` enumerates the pairs of inputs second operand major: the weight of the product sum layer (multiply_sum_layers) is laid out first operand major", loc))
            else:
                out.append(unres("R14q", f.qualname, "sum-pairs:first-operand-major", f"`{unparse(n)[:60]}`: which operand each argument belongs to was not derived", loc))
    if not out:
        out.append(unres("R14q", f.qualname, "sum-pairs:first-operand-major", "no itertools.product over two layers' inputs in multiply (another formulation): no verdict", f.loc))
    return out


# ------------------------------------------------------------------------------------------ R14r
def _int_eval(e: ast.AST, env: dict[str, int]) -> int | None:
    """closed-form integer expression over named parameters (+, -, *, //, **, min, max) at one valuation"""
    if isinstance(e, ast.Constant) and isinstance(e.value, int) and not isinstance(e.value, bool):
        return e.value
    if isinstance(e, ast.Name):
        return env.get(e.id)
    if isinstance(e, ast.UnaryOp) and isinstance(e.op, ast.USub):
        v = _int_eval(e.operand, env)
        return None if v is None else -v
    if isinstance(e, ast.BinOp):
        l, r = _int_eval(e.left, env), _int_eval(e.right, env)
        if l is None or r is None:
            return None
        if isinstance(e.op, ast.Add):
            return l + r
        if isinstance(e.op, ast.Sub):
            return l - r
        if isinstance(e.op, ast.Mult):
            return l * r
        if isinstance(e.op, ast.FloorDiv):
            return None if r == 0 else l // r
        if isinstance(e.op, ast.Pow) and 0 <= r <= 4:
            return l**r
        return None
    if isinstance(e, ast.Call) and isinstance(e.func, ast.Name) and e.func.id in ("min", "max") and e.args and not e.keywords:
        vs = [_int_eval(a, env) for a in e.args]
        if any(v is None for v in vs):
            return None
        return min(vs) if e.func.id == "min" else max(vs)  # type: ignore[type-var]
    if isinstance(e, ast.Call) and isinstance(e.func, ast.Name) and e.func.id == "int" and len(e.args) == 1:
        return _int_eval(e.args[0], env)
    return None


def count_table_covers_bins(ctx: Ctx, fq: str = "cirkit.templates.region_graph.algorithms.chow_liu.ChowLiuTree", callee: str = "_categorical_mutual_info", table_kw: str = "num_categories", data_param: str = "data") -> list[Ob]:
    """R14r -- the joint-count table is as wide as the (re-binned) categories it is indexed with.

    ``_categorical_mutual_info`` scatters into a table of side ``num_categories`` at index
    ``a * num_categories + b``; every category index it is handed must be below that side.  The
    caller's data holds categories 0..K-1 (K its own ``num_categories``), optionally re-binned by a
    floor division.  A path-sensitive walk of the caller (forking at every ``if``, nothing executed)
    tracks the upper bound of the data entries and the expression passed as the table side; the
    entailment `bound < side` is proved by the lemma ``x // d <= x`` (d >= 1) when the side is K
    itself, and otherwise refuted by a bounded search for a counter-model of the two closed-form
    integer expressions (1 <= B <= K <= 48), e.g. K = 10, B = 4: divisor 2, largest bin 4, side 4."""
    f = ctx.repo.func(fq)
    pnames = [p.name for p in f.params]
    if data_param not in pnames or table_kw not in pnames:
        raise AnalysisError(f"R14r: {fq} no longer has parameters {data_param} / {table_kw}")
    out: list[Ob] = []
    K = ast.Name(id=table_kw, ctx=ast.Load())
    init_ub: ast.AST = ast.BinOp(left=K, op=ast.Sub(), right=ast.Constant(1))
    calls_seen = 0

    class Unknown(Exception):
        pass

    def subst(e: ast.AST, side: ast.AST) -> ast.AST:
        """expressions are over the *parameters*: a local re-binding of the table parameter is inlined"""

        class S(ast.NodeTransformer):
            def visit_Name(self, n: ast.Name) -> ast.AST:
                return side if n.id == table_kw else n

        import copy

        return S().visit(copy.deepcopy(e))

    def is_data(e: ast.AST) -> bool:
        while isinstance(e, ast.Call) and isinstance(e.func, ast.Attribute) and e.func.attr in ("long", "int", "to", "contiguous", "clone", "cpu"):
            e = e.func.value
        return isinstance(e, ast.Name) and e.id == data_param

    def walk(stmts: list[ast.stmt], ub: ast.AST | None, side: ast.AST | None, none_side: bool | None, conds: tuple[str, ...]) -> None:
        """ub: bound of the data entries (None: unknown); side: current value of the table parameter as
        an expression over the parameters (None: unknown); none_side: the parameter is None on this path"""
        nonlocal calls_seen
        for i, st in enumerate(stmts):
            for c in [n for n in ast.walk(st) if isinstance(n, ast.Call) and (dotted(n.func) or "").split(".")[-1] == callee] if not isinstance(st, ast.If) else []:
                calls_seen += 1
                loc = f"{f.module.relpath}:{c.lineno}"
                inst = "table-side>=bins:" + ("binned" if ub is not None and any(isinstance(x, ast.BinOp) and isinstance(x.op, ast.FloorDiv) for x in ast.walk(ub)) else "plain")
                kw = {k.arg: k.value for k in c.keywords}
                arg0 = c.args[0] if c.args else kw.get(data_param)
                s_e = kw.get(table_kw)
                if arg0 is None or not is_data(arg0):
                    out.append(unres("R14r", f.qualname, inst, "the index tensor handed to the callee is not the (cast) data: no verdict", loc))
                    continue
                if s_e is None or (isinstance(s_e, ast.Constant) and s_e.value is None) or (isinstance(s_e, ast.Name) and s_e.id == table_kw and none_side):
                    out.append(ok("R14r", f.qualname, inst, "no table side is passed: the callee sizes the table from the data itself", loc))
                    continue
                if ub is None or (isinstance(s_e, ast.Name) and s_e.id == table_kw and side is None):
                    out.append(unres("R14r", f.qualname, inst, "the bound of the data or the table side was not derived on this path: no verdict", loc))
                    continue
                s_full = subst(s_e, side if side is not None else K)
                # proof: side is K and the bound is K - 1 divided (any number of times) by divisors >= 1
                e = ub
                divided = False
                while isinstance(e, ast.BinOp) and isinstance(e.op, ast.FloorDiv):
                    e = e.left
                    divided = True
                if unparse(s_full) == table_kw and unparse(e) == unparse(init_ub):
                    out.append(ok("R14r", f.qualname, inst, f"entries <= {unparse(ub)} <= {table_kw} - 1 (x // d <= x for d >= 1): the table of side {table_kw} covers them", loc))
                    continue
                names = sorted({n.id for x in (ub, s_full) for n in ast.walk(x) if isinstance(n, ast.Name)})
                others = [n for n in names if n != table_kw]
                if len(others) > 1:
                    out.append(unres("R14r", f.qualname, inst, f"bound {unparse(ub)} and side {unparse(s_full)} depend on {names}: no verdict", loc))
                    continue
                witness = None
                evaluated = 0
                for k in range(1, 49):
                    for b in range(1, k + 1) if others else [None]:
                        env = {table_kw: k}
                        if others:
                            env[others[0]] = b  # type: ignore[assignment]
                        u, s = _int_eval(ub, env), _int_eval(s_full, env)
                        if u is None or s is None:
                            continue
                        evaluated += 1
                        if u >= s and witness is None:
                            witness = (dict(env), u, s)
                if witness is not None:
                    out.append(viol("R14r", f.qualname, inst, f"the data entries reach {unparse(ub)} while the count table has side {unparse(s_full)}: for {witness[0]} the largest index is {witness[1]} >= {witness[2]}, so the flattened joint index leaves the table (scatter raises, or counts are aliased into another cell)", loc))
                elif evaluated:
                    out.append(ok("R14r", f.qualname, inst, f"no valuation with 1 <= B <= K <= 48 has {unparse(ub)} >= {unparse(s_full)} ({evaluated} valuations of the two closed-form expressions; a bounded refutation search, not a proof)", loc))
                else:
                    out.append(unres("R14r", f.qualname, inst, f"bound {unparse(ub)} / side {unparse(s_full)} are not closed-form integer expressions: no verdict", loc))
            if isinstance(st, (ast.Raise, ast.Return)):
                return
            if isinstance(st, ast.If):
                t = st.test
                # `<table param> is None` / `is not None`
                tn: bool | None = None
                if isinstance(t, ast.Compare) and len(t.ops) == 1 and isinstance(t.left, ast.Name) and t.left.id == table_kw and isinstance(t.comparators[0], ast.Constant) and t.comparators[0].value is None:
                    tn = isinstance(t.ops[0], ast.Is)
                lab = unparse(t)[:30]
                for branch, holds in ((st.body, True), (st.orelse, False)):
                    ns = none_side
                    if tn is not None:
                        is_none_here = tn if holds else not tn
                        if none_side is not None and none_side != is_none_here:
                            continue  # infeasible
                        ns = is_none_here
                    walk(list(branch) + stmts[i + 1 :], ub, side, ns, conds + ((lab if holds else "not " + lab),))
                return
            if isinstance(st, (ast.For, ast.While, ast.Try, ast.With)):
                if any(isinstance(n, ast.Name) and n.id in (data_param, table_kw) and isinstance(n.ctx, ast.Store) for n in ast.walk(st)):
                    ub, side = None, None
                continue
            if isinstance(st, ast.Assign) and len(st.targets) == 1 and isinstance(st.targets[0], ast.Name):
                tgt, v = st.targets[0].id, st.value
                if tgt == data_param:
                    d: ast.AST | None = None
                    if isinstance(v, ast.Call) and (dotted(v.func) or "").split(".")[-1] in ("div", "floor_divide", "divide") and v.args and is_data(v.args[0]) and len(v.args) >= 2:
                        mode = next((k.value for k in v.keywords if k.arg == "rounding_mode"), None)
                        if (dotted(v.func) or "").endswith("floor_divide") or (isinstance(mode, ast.Constant) and mode.value == "floor"):
                            d = v.args[1]
                    elif isinstance(v, ast.BinOp) and isinstance(v.op, ast.FloorDiv) and is_data(v.left):
                        d = v.right
                    if d is not None and ub is not None:
                        ub = ast.BinOp(left=ub, op=ast.FloorDiv(), right=subst(d, side if side is not None else K))
                    elif is_data(v):
                        pass
                    elif isinstance(v, ast.Call) and (dotted(v.func) or "").split(".")[-1] in ("clamp", "clip", "clamp_max") and is_data(v.args[0] if v.args else v.func.value if isinstance(v.func, ast.Attribute) else v):
                        mx = next((k.value for k in v.keywords if k.arg == "max"), None)
                        ub = ast.Call(func=ast.Name(id="min", ctx=ast.Load()), args=[ub, subst(mx, side if side is not None else K)], keywords=[]) if (mx is not None and ub is not None) else ub
                    else:
                        ub = None
                elif tgt == table_kw:
                    side = subst(v, side if side is not None else K) if _int_eval(subst(v, side if side is not None else K), {n.id: 2 for n in ast.walk(v) if isinstance(n, ast.Name)} | {table_kw: 2}) is not None else None
                    none_side = False if side is not None else none_side

    walk(list(f.node.body), init_ub, K, None, ())
    if calls_seen == 0:
        raise AnalysisError(f"R14r: {fq} no longer calls {callee} (anchor vanished)")
    # de-duplicate identical path verdicts
    seen: set[tuple[str, str, str]] = set()
    res = []
    for o in out:
        k = (o.instance, o.status, o.msg)
        if k not in seen:
            seen.add(k)
            res.append(o)
    return res


# ------------------------------------------------------------------------------------------ R14s
TOPO_FUNCS = {"topological_ordering", "layerwise_topological_ordering"}


def edge_multiplicity(ctx: Ctx) -> list[Ob]:
    """R14s -- successor lists keep one entry per edge.

    ``topological_ordering`` / ``layerwise_topological_ordering`` count the predecessors of a node
    with multiplicity (``len(incomings_fn(n))``) and decrement once per entry of
    ``outcomings_fn(child)``: the successor function has to list a successor once *per edge*.  A node
    that uses another twice -- ``c * c`` has operands ``(c, c)``; a product layer can list one input
    twice -- otherwise never becomes ready and the ordering stops early / reports a cycle.
    (a) ``graph_nodes_outgoings`` appends once per occurrence (no membership guard, no set);
    (b) every explicit ``outcomings_fn`` handed to an ordering function is a ``node_outputs`` method
    or a lookup in a mapping built by ``graph_nodes_outgoings``; a successor function defined by a
    membership test (``[m for m in nodes if n in incomings(m)]``) loses the multiplicity."""
    out: list[Ob] = []
    g = ctx.repo.func("cirkit.utils.algorithms.graph_nodes_outgoings")
    guarded = False
    uses_set = any(isinstance(n, (ast.Set, ast.SetComp)) or (isinstance(n, ast.Call) and isinstance(n.func, ast.Name) and n.func.id in ("set", "frozenset")) or (isinstance(n, ast.Call) and isinstance(n.func, ast.Attribute) and n.func.attr == "add") for n in ast.walk(g.node))
    par: dict[int, ast.AST] = {}
    for n in ast.walk(g.node):
        for ch in ast.iter_child_nodes(n):
            par[id(ch)] = n
    appends = [n for n in ast.walk(g.node) if isinstance(n, ast.Call) and isinstance(n.func, ast.Attribute) and n.func.attr == "append"]
    for a in appends:
        cur: ast.AST | None = a
        while cur is not None and cur is not g.node:
            up = par.get(id(cur))
            if isinstance(up, ast.If):
                for c in ast.walk(up.test):
                    # `n not in outgoings[ch]`: a guard on the *list*, not `ch in outgoings` (the key)
                    if isinstance(c, ast.Compare) and any(isinstance(o, (ast.In, ast.NotIn)) for o in c.ops) and any(isinstance(x, ast.Subscript) for x in c.comparators):
                        guarded = True
            cur = up
    if uses_set or guarded:
        out.append(viol("R14s", g.qualname, "per-edge", "the successor lists are de-duplicated (a set / a membership guard before append): the orderings count predecessors with multiplicity, so a node using another twice (c * c) never becomes ready", g.loc))
    elif appends:
        out.append(ok("R14s", g.qualname, "per-edge", "one successor entry per occurrence among the predecessors", g.loc))
    else:
        out.append(unres("R14s", g.qualname, "per-edge", "no append in graph_nodes_outgoings (another formulation): no verdict", g.loc))
    n_calls = 0
    for f in ctx.repo.iter_functions():
        if not f.module.name.startswith("cirkit"):
            continue
        ld = None
        for c in walk_no_nested(f.node):
            if not (isinstance(c, ast.Call) and (dotted(c.func) or "").split(".")[-1] in TOPO_FUNCS):
                continue
            if f.name in TOPO_FUNCS and f.module.name == "cirkit.utils.algorithms" and f.cls is None:
                continue
            oc = next((k.value for k in c.keywords if k.arg == "outcomings_fn"), c.args[2] if len(c.args) > 2 else None)
            if oc is None:
                continue
            n_calls += 1
            loc = f"{f.module.relpath}:{c.lineno}"
            inst = f"outcomings:{unparse(oc)[:40]}"
            if isinstance(oc, ast.Attribute) and oc.attr == "node_outputs":
                out.append(ok("R14s", f.qualname, inst, "the graph's own node_outputs (built by graph_nodes_outgoings)", loc))
                continue
            body: ast.AST | None = None
            if isinstance(oc, ast.Lambda):
                body = oc.body
            elif isinstance(oc, ast.Name):
                for n in ast.walk(f.node):
                    if isinstance(n, ast.FunctionDef) and n.name == oc.id:
                        body = n
                if body is None:
                    ld = ld or LocalDefs(f.node)
                    ds = [d for d in ld.defs.get(oc.id, []) if isinstance(d, ast.Lambda)]
                    body = ds[0].body if len(ds) == 1 else None
            if body is None:
                out.append(unres("R14s", f.qualname, inst, "the successor function was not resolved: no verdict", loc))
                continue
            member = [x for x in ast.walk(body) if isinstance(x, ast.Compare) and any(isinstance(o, ast.In) for o in x.ops)]
            dedup = [x for x in ast.walk(body) if isinstance(x, (ast.Set, ast.SetComp)) or (isinstance(x, ast.Call) and isinstance(x.func, ast.Name) and x.func.id in ("set", "frozenset"))]
            if member or dedup:
                out.append(viol("R14s", f.qualname, inst, f"the successor function is defined by a membership test / a set (`{unparse((member or dedup)[0])[:60]}`): a successor that uses the node twice (c * c has operands (c, c)) is listed once, while its predecessors are counted twice -- it never becomes ready and the ordering reports a cycle", loc))
            elif any(isinstance(x, ast.Call) and isinstance(x.func, ast.Attribute) and x.func.attr == "get" for x in ast.walk(body)) or any(isinstance(x, ast.Subscript) for x in ast.walk(body)):
                out.append(ok("R14s", f.qualname, inst, "a lookup in a successor mapping", loc))
            else:
                out.append(unres("R14s", f.qualname, inst, "the successor function is neither a mapping lookup nor a membership filter: no verdict", loc))
    out.append(ok("R14s", "cirkit", "explicit-outcomings", f"{n_calls} ordering call(s) with an explicit successor function", "", nontrivial=False))
    return out


# ------------------------------------------------------------------------------------------ R14t
def _ann_parts(a: ast.AST | None) -> tuple[str, list[ast.AST]] | None:
    """`dict[K, V]` -> ('dict', [K, V]); `list[T]` -> ('list', [T]) (typing aliases included)"""
    if isinstance(a, ast.Constant) and isinstance(a.value, str):
        try:
            a = ast.parse(a.value, mode="eval").body
        except SyntaxError:
            return None
    if isinstance(a, ast.Subscript):
        head = (dotted(a.value) or "").split(".")[-1]
        args = list(a.slice.elts) if isinstance(a.slice, ast.Tuple) else [a.slice]
        kind = {"dict": "dict", "Dict": "dict", "Mapping": "dict", "MutableMapping": "dict", "defaultdict": "dict", "OrderedDict": "dict",
                "list": "list", "List": "list", "Sequence": "list", "Iterable": "list", "Iterator": "list", "tuple": "list", "set": "list", "Set": "list", "Collection": "list"}.get(head)
        if kind == "dict" and len(args) == 2:
            return "dict", args
        if kind == "list" and args:
            return "list", [args[0]]
    return None


def membership_in_mapping(ctx: Ctx, modules: tuple[str, ...] = ("cirkit",)) -> list[Ob]:
    """R14t -- ``x in mapping`` tests the keys.

    Where the annotations of a function determine both sides -- the mapping is a parameter or local
    annotated ``dict[K, V]`` and ``x`` is an element of a sequence whose element type follows from
    annotations (``for x in seq`` / a comprehension over it, ``seq = mapping2[k]`` with
    ``mapping2: dict[K2, list[T]]``) -- a membership test whose left side has the mapping's *value*
    type and not its key type is always False: the bookkeeping it was meant to consult ("has a match
    already been selected?") is silently skipped."""
    out: list[Ob] = []
    n_dec = 0
    for f in ctx.repo.iter_functions():
        if not f.module.name.startswith(modules):
            continue
        ann: dict[str, ast.AST] = {}
        for p in f.params:
            if p.annotation is not None:
                ann[p.name] = p.annotation
        for n in walk_no_nested(f.node):
            if isinstance(n, ast.AnnAssign) and isinstance(n.target, ast.Name):
                ann[n.target.id] = n.annotation
        if not any(_ann_parts(a) and _ann_parts(a)[0] == "dict" for a in ann.values()):  # type: ignore[index]
            continue
        ld = LocalDefs(f.node)

        def type_of(e: ast.AST, depth: int = 3) -> ast.AST | None:
            if isinstance(e, ast.Name):
                if e.id in ann:
                    return ann[e.id]
                if depth == 0:
                    return None
                ts = []
                for d in ld.defs.get(e.id, []):
                    if isinstance(d, ast.Subscript) and isinstance(d.slice, ast.Name) and d.slice.id == "*":
                        t = type_of(d.value, depth - 1)  # element of an iterable
                        pp = _ann_parts(t)
                        ts.append(pp[1][0] if pp and pp[0] == "list" else None)
                    elif isinstance(d, ast.expr):
                        ts.append(type_of(d, depth - 1))
                    else:
                        ts.append(None)
                if ts and all(t is not None for t in ts) and len({unparse(t) for t in ts}) == 1:  # type: ignore[arg-type]
                    return ts[0]
                return None
            if isinstance(e, ast.Subscript) and not isinstance(e.slice, ast.Slice):
                pp = _ann_parts(type_of(e.value, depth))
                if pp and pp[0] == "dict":
                    return pp[1][1]
                if pp and pp[0] == "list":
                    return pp[1][0]
            return None

        for c in ast.walk(f.node):
            if not (isinstance(c, ast.Compare) and len(c.ops) == 1 and isinstance(c.ops[0], (ast.In, ast.NotIn))):
                continue
            rhs = c.comparators[0]
            if not isinstance(rhs, ast.Name):
                continue
            pp = _ann_parts(ann.get(rhs.id))
            if not pp or pp[0] != "dict":
                continue
            # the left side: a plain name, possibly a comprehension variable of an enclosing generator
            lhs_t: ast.AST | None = None
            if isinstance(c.left, ast.Name):
                lhs_t = type_of(c.left)
                if lhs_t is None:
                    for g in ast.walk(f.node):
                        if isinstance(g, ast.comprehension) and isinstance(g.target, ast.Name) and g.target.id == c.left.id:
                            tp = _ann_parts(type_of(g.iter))
                            if tp and tp[0] == "list":
                                lhs_t = tp[1][0]
            if lhs_t is None:
                continue
            n_dec += 1
            k_t, v_t = unparse(pp[1][0]), unparse(pp[1][1])
            l_t = unparse(lhs_t)
            loc = f"{f.module.relpath}:{c.lineno}"
            inst = f"in-mapping:{unparse(c)[:40]}"
            if l_t == v_t and l_t != k_t:
                out.append(viol("R14t", f.qualname, inst, f"`{unparse(c)[:60]}`: the left side is a {l_t} -- the *value* type of `{rhs.id}: dict[{k_t}, {v_t}]` -- and `in` tests the keys ({k_t}): the test is always False, so what it guards (consulting the selections made so far) never happens", loc))
            elif l_t == k_t:
                out.append(ok("R14t", f.qualname, inst, f"a {l_t} among the keys ({k_t})", loc))
            else:
                n_dec -= 1  # the derived type is neither: the inference is too coarse here, no statement
    out.append(ok("R14t", "cirkit", "decided-memberships", f"{n_dec} membership test(s) in annotated mappings with a derivable left type", "", nontrivial=False))
    return out


# ------------------------------------------------------------------------------------------ R14u
def merged_node_lists_unique(ctx: Ctx, classes: tuple[str, ...] = ("cirkit.symbolic.parameters.Parameter", "cirkit.backend.torch.parameters.parameter.TorchParameter")) -> list[Ob]:
    """R14u -- a graph built by merging several graphs lists each node once.

    The orderings count predecessors per *listed* node and per edge (R14s); a node listed twice in
    ``nodes`` is visited twice by ``graph_nodes_outgoings`` and doubles the successor entries of its
    inputs, so their consumers never reach in-degree zero: "The graph has at least one cycle".  The
    constructors that merge the node lists of *several* operand graphs (``from_nary`` and what calls
    it) have to de-duplicate the concatenation -- operands may share a sub-graph (``log(q) + q``) or be
    the same graph twice (``q * q``)."""
    out: list[Ob] = []
    for cq in classes:
        c = ctx.repo.cls(cq)
        found = False
        for m in c.methods.values():
            ld = LocalDefs(m.node)
            for n in walk_no_nested(m.node):
                if not (isinstance(n, ast.Call) and (dotted(n.func) or "").split(".")[-1] == "from_iterable"):
                    continue
                gens = [g for g in ast.walk(n) if isinstance(g, (ast.GeneratorExp, ast.ListComp)) and isinstance(g.elt, ast.Attribute) and g.elt.attr in ("nodes", "_nodes")]
                if not gens:
                    continue
                found = True
                # is the concatenation wrapped by a de-duplication on its way to the constructor?
                par: dict[int, ast.AST] = {}
                for x in ast.walk(m.node):
                    for ch in ast.iter_child_nodes(x):
                        par[id(ch)] = x
                cur: ast.AST | None = n
                dedup = None
                while cur is not None and not isinstance(cur, ast.stmt):
                    up = par.get(id(cur))
                    if isinstance(up, ast.Call):
                        nm = (dotted(up.func) or "")
                        if nm in ("dict.fromkeys", "OrderedDict.fromkeys", "set", "frozenset", "unique"):
                            dedup = nm
                    cur = up
                loc = f"{m.module.relpath}:{n.lineno}"
                inst = f"merged-nodes:{m.name}"
                if dedup in ("set", "frozenset"):
                    out.append(viol("R14u", m.qualname, inst, f"the merged node list is de-duplicated with {dedup}(..): the order of `nodes` (a topological order the callers rely on) is lost", loc))
                elif dedup:
                    out.append(ok("R14u", m.qualname, inst, f"the concatenated node lists are de-duplicated in order ({dedup})", loc))
                else:
                    out.append(viol("R14u", m.qualname, inst, f"`{unparse(n)[:70]}` concatenates the node lists of several operand graphs as they are: operands sharing a sub-graph (log(q) + q), or the same operand twice (q * q), list the shared nodes twice and the graph cannot be ordered ('at least one cycle')", loc))
        if not found:
            out.append(unres("R14u", cq, "merged-nodes", "no concatenation of operand node lists (chain.from_iterable over `.nodes`) in this class: no verdict", c.loc))
    return out


# ------------------------------------------------------------------------------------------ R14v
def split_graphs_keep_sharing(ctx: Ctx, modules: tuple[str, ...] = ("cirkit.backend.torch.optimization",)) -> list[Ob]:
    """R14v -- an optimisation that splits one parameter graph over several layers keeps shared
    leaves shared.

    Sharing between *layers* is expressed by pointer nodes: every layer's parameter graph is folded
    on its own, and a tensor node that sits in two graphs is folded -- allocated -- twice.  A rewrite
    that takes two or more ``.subgraph(..)`` of the *same* parameter graph and gives them to
    different layers therefore has to account for nodes the sub-graphs have in common (replace them
    by pointers in all but one, or refuse when the node sets intersect); otherwise a weight with a
    tied factor (``A (x) A`` built on one tensor node) compiles, under fold + optimize, to two
    independent tensors."""
    out: list[Ob] = []
    n_fn = 0
    for f in ctx.repo.iter_functions():
        if not f.module.name.startswith(modules):
            continue
        subs: dict[str, list[ast.Call]] = {}
        for n in walk_no_nested(f.node):
            if isinstance(n, ast.Call) and isinstance(n.func, ast.Attribute) and n.func.attr == "subgraph" and isinstance(n.func.value, ast.Name):
                subs.setdefault(n.func.value.id, []).append(n)
        for g, calls in subs.items():
            if len(calls) < 2:
                continue
            n_fn += 1
            loc = f"{f.module.relpath}:{calls[0].lineno}"
            handles = any(
                (isinstance(x, ast.Name) and x.id == "TorchPointerParameter")
                or (isinstance(x, ast.Call) and isinstance(x.func, ast.Attribute) and x.func.attr in ("isdisjoint", "intersection") and "nodes" in unparse(x))
                or (isinstance(x, ast.BinOp) and isinstance(x.op, ast.BitAnd) and "nodes" in unparse(x))
                for x in ast.walk(f.node)
            )
            inst = f"split:{g}"
            if handles:
                out.append(ok("R14v", f.qualname, inst, "the rewrite looks at the nodes the sub-graphs share (pointer / intersection)", loc))
            else:
                out.append(viol("R14v", f.qualname, inst, f"{len(calls)} sub-graphs of `{g}` become the parameters of different layers and nothing accounts for nodes they share: a tied factor (both Kronecker operands on one tensor node) is allocated once per layer when the layers are folded, so fold=True, optimize=True computes A1 (x) A2 with two independent tensors", loc))
    out.append(ok("R14v", "cirkit.backend.torch.optimization", "graph-splits", f"{n_fn} rewrite(s) splitting one parameter graph over several layers", "", nontrivial=False))
    return out


# ------------------------------------------------------------------------------------------ R14w
def arrays_copied_as_given(ctx: Ctx, modules: tuple[str, ...] = ("cirkit.backend.torch.initializers", "cirkit.backend.torch.rules.initializers")) -> list[Ob]:
    """R14w -- an array constant is copied exactly, whatever its memory layout and whenever it is
    (re-)initialised.

    (a) ``torch.from_numpy`` refuses arrays with negative strides (``a[::-1]``): what it is given has
    to pass through ``np.ascontiguousarray`` / ``.copy()`` / ``np.array(..)`` first.  (b) An in-place
    initialiser (a function filling a tensor it is handed) takes the data type from *that tensor*: a
    conversion to ``torch.get_default_dtype()`` on the way rounds the values through whatever the
    global default is at reset time, which need not be the dtype the parameter was compiled with."""
    out: list[Ob] = []
    n_from = 0
    for f in ctx.repo.iter_functions():
        if not f.module.name.startswith(modules):
            continue
        ld = LocalDefs(f.node)
        fills_given_tensor = any(p.annotation is not None and unparse(p.annotation).endswith("Tensor") for p in f.params[:1])
        for n in walk_no_nested(f.node):
            if isinstance(n, ast.Call) and (dotted(n.func) or "").endswith("from_numpy") and n.args:
                n_from += 1
                loc = f"{f.module.relpath}:{n.lineno}"
                exprs = [n.args[0], *ld.expand(n.args[0])]
                safe = any(isinstance(c, ast.Call) and ((dotted(c.func) or "").split(".")[-1] in ("ascontiguousarray", "array", "copy", "asarray_chkfinite", "require") ) for e in exprs for c in ast.walk(e))
                if safe:
                    out.append(ok("R14w", f.qualname, "contiguous-before-from_numpy", "the array is made contiguous / copied before torch wraps it", loc))
                else:
                    out.append(viol("R14w", f.qualname, "contiguous-before-from_numpy", f"`{unparse(n)[:60]}` wraps the array as it is: torch.from_numpy raises for a view with negative strides (a[::-1]), so such a constant cannot be compiled", loc))
        if fills_given_tensor:
            uses_default = [n for n in walk_no_nested(f.node) if isinstance(n, ast.Call) and (dotted(n.func) or "").endswith("get_default_dtype")]
            loc = f.loc
            if uses_default:
                out.append(viol("R14w", f.qualname, "dtype-of-destination", "an initialiser filling a given tensor converts through torch.get_default_dtype(): the values are rounded through the global default at reset time instead of being converted once to the tensor's own dtype", f"{f.module.relpath}:{uses_default[0].lineno}"))
            else:
                out.append(ok("R14w", f.qualname, "dtype-of-destination", "no detour through the global default dtype", loc))
    if n_from == 0:
        out.append(unres("R14w", "cirkit.backend.torch.initializers", "contiguous-before-from_numpy", "no torch.from_numpy in the initialiser modules (another formulation): no verdict", ""))
    return out


# ------------------------------------------------------------------------------------------ R14x
def positional_records_agree_by_name(ctx: Ctx, modules: tuple[str, ...] = ("cirkit",)) -> list[Ob]:
    """R14x -- a record filled positionally gets each value in the field of its name.

    For every call that constructs a repo dataclass / NamedTuple with two or more *positional*
    arguments whose names carry a field name (``self.is_smooth`` / ``is_smooth`` / ``smooth`` for a
    field ``smooth``): the i-th positional argument has to name the i-th declared field.  Fields of
    one type (four booleans) type-check in any order -- reordering the declaration, or the call,
    silently swaps the flags a consumer reads (``properties.smooth`` answering decomposability)."""
    out: list[Ob] = []
    records: dict[str, list[str]] = {}
    for c in ctx.repo.classes.values():
        if not c.module.name.startswith(modules):
            continue
        is_rec = any((dotted(d.func if isinstance(d, ast.Call) else d) or "").split(".")[-1] == "dataclass" for d in c.node.decorator_list) or any((dotted(b) or "").split(".")[-1] == "NamedTuple" for b in c.node.bases)
        if not is_rec:
            continue
        fields = [n.target.id for n in c.node.body if isinstance(n, ast.AnnAssign) and isinstance(n.target, ast.Name) and "ClassVar" not in unparse(n.annotation)]
        if len(fields) >= 2:
            records[c.name] = fields
    n_calls = 0
    for f in ctx.repo.iter_functions():
        if not f.module.name.startswith(modules):
            continue
        for n in walk_no_nested(f.node):
            if not (isinstance(n, ast.Call) and (dotted(n.func) or "").split(".")[-1] in records and len(n.args) >= 2):
                continue
            fields = records[(dotted(n.func) or "").split(".")[-1]]
            if any(isinstance(a, ast.Starred) for a in n.args):
                continue

            def tail(a: ast.AST) -> str | None:
                if isinstance(a, ast.Attribute):
                    return a.attr
                if isinstance(a, ast.Name):
                    return a.id
                return None

            names = [tail(a) for a in n.args]
            # which field does each argument name? (exact, or with an is_/has_/num_ prefix, or underscore-private)
            def field_of(nm: str | None) -> str | None:
                if nm is None:
                    return None
                cands = [fl for fl in fields if nm == fl or nm.lstrip("_") == fl or nm in (f"is_{fl}", f"has_{fl}", f"_{fl}", f"{fl}_")]
                return cands[0] if len(cands) == 1 else None

            named = [field_of(nm) for nm in names]
            if sum(1 for x in named if x is not None) < 2:
                continue
            n_calls += 1
            loc = f"{f.module.relpath}:{n.lineno}"
            inst = f"positional:{(dotted(n.func) or '').split('.')[-1]}"
            wrong = [(i, names[i], fields[i], named[i]) for i in range(min(len(named), len(fields))) if named[i] is not None and named[i] != fields[i]]
            if wrong:
                i, nm, fl, meant = wrong[0]
                out.append(viol("R14x", f.qualname, inst, f"positional argument {i} is `{nm}` (the value of field `{meant}`) but field {i} of {(dotted(n.func) or '').split('.')[-1]} is `{fl}` (declared order {fields}): the flags are stored under each other's names", loc))
            else:
                out.append(ok("R14x", f.qualname, inst, f"positional arguments {names} follow the declared fields {fields[:len(names)]}", loc))
    out.append(ok("R14x", "cirkit", "positional-records", f"{n_calls} positional construction(s) of a record whose arguments carry field names", "", nontrivial=False))
    return out


# ------------------------------------------------------------------------------------------ R14y
RNG_STATE_CALLS = {"manual_seed", "manual_seed_all", "seed", "fork_rng", "set_rng_state", "set_rng_state_all"}


def sampling_leaves_rng_alone(ctx: Ctx, modules: tuple[str, ...] = ("cirkit.backend.torch",)) -> list[Ob]:
    """R14y -- drawing samples consumes the global random stream; it never re-seeds, forks or restores it.

    Two calls of a sampling query are two independent draws.  Code on the sampling path that runs
    under ``torch.random.fork_rng()`` (the state is restored on exit), or that calls ``manual_seed``
    / ``set_rng_state``, makes every call return the same samples -- each call looks perfectly
    distributed on its own."""
    out: list[Ob] = []
    n_fn = 0
    for f in ctx.repo.iter_functions():
        if not f.module.name.startswith(modules):
            continue
        n_fn += 1
        for n in walk_no_nested(f.node):
            if isinstance(n, ast.Call):
                nm = (dotted(n.func) or "").split(".")[-1]
                full = dotted(n.func) or ""
                if nm in RNG_STATE_CALLS and ("torch" in full or "random" in full or "np." in full or "numpy" in full or nm in ("fork_rng", "set_rng_state")):
                    out.append(viol("R14y", f.qualname, f"rng-state:{nm}", f"`{unparse(n)[:60]}` changes / restores the state of the random generator inside the torch backend: every call then draws the same numbers", f"{f.module.relpath}:{n.lineno}"))
    if not out:
        out.append(ok("R14y", modules[0], "rng-state", f"no seeding / forking / restoring of a random generator in {n_fn} functions of the torch backend", ""))
    return out
