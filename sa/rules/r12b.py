"""R12b -- the optimiser's rewrite rules preserve shapes, element order and contraction pairing.

An optimisation rule replaces a matched chain of modules by new modules.  Both chains are interpreted
(``sa.shapes`` with layout typing, ``sa.layout``) on the same abstract inputs -- sizes symbolic,
arity / rank / axes enumerated -- and must agree on

  * the result shape,
  * the element order (layout) of every result axis where both sides derive one,
  * the *pairing signature*: which data axes are contracted against which parameter axes.  A
    parameter axis handed to a layer is an opaque atom ``<weight#1>``; when a rewrite views it as
    several axes and contracts each with another input (Tucker), the pieces are re-assembled in
    order, so ``<weight#1> <-> [Ki|H=0, Ki|H=1]`` on both sides means: the fused layer reads the weight
    columns in exactly the order the Kronecker layer produced them.

Layer fuse rules (``DEFAULT_LAYER_FUSE_OPT_RULES``) and parameter rules
(``DEFAULT_PARAMETER_OPT_RULES``) are enumerated from the registries; a rule the driver cannot set
up is *unresolved*.
"""

from __future__ import annotations

import ast
import itertools
from typing import Any

from ..core import Ctx, Ob, ok, unres, viol
from ..dims import Dim, fmt_shape
from ..layout import fmt, fmt_all
from ..model import AnalysisError, ClassInfo, FuncInfo, dotted
from ..shapes import (
    BoolV, ClassV, Frame, Interp, IntV, ObjV, ParamV, PathLimit, SemiringV, ShapeError, State, TensorV, TupleV, Unknown, V,
    fresh_tensor, mkint, new_obj, new_param,
)
from . import r4

OPT_LAYERS = "cirkit.backend.torch.optimization.layers"
OPT_PARAMS = "cirkit.backend.torch.optimization.parameters"
MATCH = "cirkit.backend.torch.graph.optimize.GraphOptMatch"
COMPILER = "cirkit.backend.torch.compiler.TorchCompiler"
F, B, KI, KO = r4.F, r4.B, r4.KI, r4.KO


def _registry(ctx: Ctx, mod: str, var: str) -> list[tuple[ClassInfo, FuncInfo]]:
    m, d = ctx.repo.registry_dict(mod, var)
    out = []
    for k, v in zip(d.keys, d.values):
        pc = ctx.repo.get_class(m, k) if k is not None else None
        f = ctx.repo.get_function(m, v)
        if pc is None or f is None:
            raise AnalysisError(f"{var}: cannot resolve a row")
        out.append((pc, f))
    return out


def _pattern_entries(ctx: Ctx, pc: ClassInfo) -> list[ClassInfo] | None:
    f = ctx.repo.lookup(pc, "entries")
    if f is None:
        return None
    for n in ast.walk(f.node):
        if isinstance(n, ast.Return) and isinstance(n.value, (ast.List, ast.Tuple)):
            cs = [ctx.repo.get_class(f.module, e) for e in n.value.elts]
            if all(c is not None for c in cs):
                return cs  # type: ignore[return-value]
    return None


def _compiler(ctx: Ctx, st: State) -> ObjV:
    c = new_obj(st, ctx.repo.cls(COMPILER))
    st.heap[c.oid]["_semiring"] = SemiringV("S")
    return c


def _match(ctx: Ctx, it: Interp, st: State, entries: list[V]) -> list[tuple[V, State]]:
    mc = ctx.repo.cls(MATCH)
    init = ctx.repo.lookup(mc, "__init__")
    assert init is not None
    return list(it.construct(ClassV(mc), [Unknown("pattern"), TupleV(tuple(entries), "list")], {}, st, Frame(init, 0)))


def _signature(pairs: list, st: State) -> tuple[frozenset, list[str]]:
    """normalised pairing signature: {(parameter atom, data layout)}; split parameter atoms re-assembled"""
    whole: dict[str, Any] = {}
    parts: dict[str, dict[int, Any]] = {}
    other: set = set()
    notes: list[str] = []
    for _letter, cands in pairs:
        known = [c for c in cands if c is not None]
        if len(known) != len(cands) or len(known) != 2:
            continue
        a, b = known
        pa = all(l.startswith("<") for l, _ in a) and len(a) > 0
        pb = all(l.startswith("<") for l, _ in b) and len(b) > 0
        if pa == pb:
            other.add(frozenset([fmt(a), fmt(b)]))
            continue
        p, d = (a, b) if pa else (b, a)
        if len(p) != 1:
            other.add(frozenset([fmt(a), fmt(b)]))
            continue
        label = p[0][0]
        if "." in label.split(">")[-1]:
            root, _, idx = label.rpartition(".")
            if idx.isdigit():
                parts.setdefault(root, {})[int(idx)] = d
                continue
        whole[label] = d
    for root, ps in parts.items():
        if sorted(ps) == list(range(len(ps))):
            whole[root] = tuple(a for i in sorted(ps) for a in ps[i])
        else:
            notes.append(f"parameter axis {root} only partly contracted")
    sig = frozenset([(k, fmt(v)) for k, v in whole.items()] + [("pair", tuple(sorted(x))) for x in other])
    return sig, notes


def _cmp(rule_q: str, inst: str, loc: str, y: V, z: V, st: State, sig_o: frozenset, sig_n: frozenset) -> Ob:
    if not isinstance(y, TensorV) or not isinstance(z, TensorV):
        return unres("R12b", rule_q, inst, f"a chain did not resolve: original {y!r}, rewritten {z!r}", loc)
    ys, zs = st.norm_shape(y.shape), st.norm_shape(z.shape)
    if ys != zs:
        return viol("R12b", rule_q, inst, f"the rewritten modules return {fmt_shape(zs)}, the matched chain {fmt_shape(ys)}", loc)
    if y.lay is not None and z.lay is not None:
        for k, (a, b) in enumerate(zip(y.lay, z.lay)):
            if a is not None and b is not None and a != b and [x[0].split('|')[0] for x in a] != [x[0].split('|')[0] for x in b]:
                return viol("R12b", rule_q, inst, f"axis {k} of the result is laid out {fmt(b)} after the rewrite but {fmt(a)} before: same numbers, different positions", loc)
    if sig_o != sig_n:
        only_o = sorted(map(str, sig_o - sig_n))
        only_n = sorted(map(str, sig_n - sig_o))
        return viol("R12b", rule_q, inst, f"the rewrite pairs parameter and data axes differently: matched chain {only_o}, rewritten {only_n}", loc)
    lay_txt = fmt_all(y.lay) if y.lay is not None else "(?)"
    return ok("R12b", rule_q, inst, f"{fmt_shape(ys)} layout {lay_txt}; {len(sig_o)} contraction pairing(s) agree", loc)


# ------------------------------------------------------------------------------- layer fuse rules


def _stack_input(t: TensorV) -> TensorV:
    """(F, B, K) as the single input of the next layer: (F, 1, B, K)"""
    lay = None
    if t.lay is not None:
        lay = (t.lay[0], (), t.lay[1], t.lay[2])
    return TensorV((t.shape[0], Dim.const(1), t.shape[1], t.shape[2]), t.dtype, lay)


def layer_rewrites(ctx: Ctx) -> list[Ob]:
    repo = ctx.repo
    obs: list[Ob] = []
    for pc, fn in _registry(ctx, OPT_LAYERS, "DEFAULT_LAYER_FUSE_OPT_RULES"):
        entries = _pattern_entries(ctx, pc)
        if entries is None or len(entries) != 2:
            obs.append(unres("R12b", fn.qualname, "setup", f"pattern {pc.name}: entries not a two-class list", fn.loc))
            continue
        top_c, bot_c = entries
        n = 0
        prod_classes = ("TorchHadamardLayer", "TorchKroneckerLayer")
        for btag, bchoice in r4._layer_choices(ctx, bot_c):
            if bot_c.name in prod_classes and "arity=1" in btag:
                continue  # symbolic ProductLayer refuses arity < 2: such a chain is never compiled
            if "num_folds" in bchoice:
                bchoice = {**bchoice, "num_folds": lambda st_: mkint(1)}  # the optimiser runs before folding
            it = Interp(repo)
            st = State()
            try:
                bots = list(r4._build_layer(ctx, it, bot_c, st, bchoice))
                for bot, s1 in bots:
                    bko = s1.heap[bot.oid].get("num_output_units")
                    if not isinstance(bko, IntV):
                        continue
                    # the top layer of every fuse pattern is a sum layer of arity 1 over the bottom's outputs
                    tchoice = {k: v for k, v in next(iter(r4._layer_choices(ctx, top_c)))[1].items()}
                    tchoice["arity"] = lambda st_: mkint(1)
                    tchoice["num_folds"] = lambda st_: mkint(1)
                    tchoice["num_output_units"] = lambda st_: IntV(Dim.sym("Ko2"))
                    tchoice["num_input_units"] = lambda st_, d=bko.d: IntV(st_.norm(d))
                    for top, s2 in r4._build_layer(ctx, it, top_c, s1, tchoice):
                        n += 1
                        obs.append(_one_layer_rewrite(ctx, fn, pc, top, bot, s2, btag))
            except ShapeError as e:
                obs.append(viol("R12b", fn.qualname, f"rewrite[{btag}]", f"{e.msg} [{e.where}]", fn.loc))
            except (PathLimit, RecursionError):
                obs.append(unres("R12b", fn.qualname, f"rewrite[{btag}]", "path limit", fn.loc))
        if n == 0:
            obs.append(unres("R12b", fn.qualname, "setup", "no abstract match could be built", fn.loc))
    return r4._dedup(obs)


def _fwd(ctx: Ctx, it: Interp, layer: ObjV, x: V, st: State) -> list[tuple[V, State]]:
    f = ctx.repo.lookup(layer.cls, "forward")
    assert f is not None
    return list(it.call(f, [x], {}, st, selfv=layer))


def _one_layer_rewrite(ctx: Ctx, fn: FuncInfo, pc: ClassInfo, top: ObjV, bot: ObjV, st0: State, tag: str) -> Ob:
    inst = f"rewrite[{tag}]" if tag else "rewrite"
    st = st0.copy()
    h = st.heap[bot.oid]
    ar, ki, nf = h.get("arity"), h.get("num_input_units"), h.get("_num_folds")
    if not all(isinstance(v, IntV) for v in (ar, ki, nf)):
        return unres("R12b", fn.qualname, inst, "bottom layer attributes unresolved", fn.loc)
    x = fresh_tensor(st.norm_shape((nf.d, ar.d, B, ki.d)))  # type: ignore[union-attr]
    # label the arity axis so that selections x[:, i] are tracked
    if x.lay is not None and st.norm(ar.d).as_int() is not None:  # type: ignore[union-attr]
        x = TensorV(x.shape, x.dtype, (x.lay[0], (("H", st.norm(ar.d)),), x.lay[2], x.lay[3]))  # type: ignore[union-attr]
    try:
        # matched chain
        it1 = Interp(ctx.repo)
        it1.pairings = []  # type: ignore[attr-defined]
        r1 = [(v, s) for v, s in _fwd(ctx, it1, bot, x, st.copy()) if isinstance(v, TensorV)]
        if len(r1) != 1:
            return unres("R12b", fn.qualname, inst, "bottom layer forward did not resolve to one tensor", fn.loc)
        y1, s1 = r1[0]
        r2 = [(v, s) for v, s in _fwd(ctx, it1, top, _stack_input(y1), s1) if isinstance(v, TensorV)]
        if len(r2) != 1:
            return unres("R12b", fn.qualname, inst, "top layer forward did not resolve to one tensor", fn.loc)
        y, s2 = r2[0]
        sig_o, _ = _signature(it1.pairings, s2)  # type: ignore[attr-defined]
        # rewritten chain
        it2 = Interp(ctx.repo)
        it2.pairings = []  # type: ignore[attr-defined]
        s3 = st.copy()
        comp = _compiler(ctx, s3)
        ms = _match(ctx, it2, s3, [top, bot])
        if not ms:
            return unres("R12b", fn.qualname, inst, "match object not constructed", fn.loc)
        mv, s4 = ms[0]
        news = list(it2.call(fn, [comp, mv], {}, s4))
        if not news:
            return viol("R12b", fn.qualname, inst, "the rule (or the constructor of the fused layer) refuses a chain its own pattern matches", fn.loc)
        nv, s5 = news[0]
        mods = list(nv.items) if isinstance(nv, TupleV) else [nv]
        if not mods or any(not isinstance(m, ObjV) for m in mods):
            return unres("R12b", fn.qualname, inst, f"rewritten modules not resolved: {nv!r}", fn.loc)
        cur: V = x
        for k, m in enumerate(mods):
            rs = [(v, s) for v, s in _fwd(ctx, it2, m, cur, s5) if isinstance(v, TensorV)]  # type: ignore[arg-type]
            if len(rs) != 1:
                return unres("R12b", fn.qualname, inst, f"forward of rewritten module {k} did not resolve", fn.loc)
            cur, s5 = rs[0]
            if k + 1 < len(mods):
                cur = _stack_input(cur)  # type: ignore[arg-type]
        sig_n, _ = _signature(it2.pairings, s5)  # type: ignore[attr-defined]
        # semiring of the fused layer: the compiler's
        sem = s5.heap[mods[-1].oid].get("semiring")  # type: ignore[union-attr]
        if not isinstance(sem, SemiringV) or sem.name != "S":
            return viol("R12b", fn.qualname, inst, f"the fused layer evaluates in {sem!r}, not in the compiler's semiring", fn.loc)
        return _cmp(fn.qualname, inst, fn.loc, y, cur, s5, sig_o, sig_n)
    except ShapeError as e:
        return viol("R12b", fn.qualname, inst, f"{e.msg} [{e.where}]", fn.loc)
    except (PathLimit, RecursionError):
        return unres("R12b", fn.qualname, inst, "path limit", fn.loc)


# ------------------------------------------------------------------------------- parameter rules


def param_rewrites(ctx: Ctx) -> list[Ob]:
    repo = ctx.repo
    obs: list[Ob] = []
    for pc, fn in _registry(ctx, OPT_PARAMS, "DEFAULT_PARAMETER_OPT_RULES"):
        entries = _pattern_entries(ctx, pc)
        if entries is None or len(entries) != 2:
            obs.append(unres("R12b", fn.qualname, "setup", f"pattern {pc.name}: entries not a two-class list", fn.loc))
            continue
        top_c, bot_c = entries
        binit = repo.lookup(bot_c, "__init__")
        tinit = repo.lookup(top_c, "__init__")
        assert binit is not None and tinit is not None
        tnames = [p.name for p in tinit.params if p.name != "self"]
        n = 0
        for btag, bkw in r4._param_op_configs(ctx, bot_c):
            r = len(next(v for k, v in bkw.items() if "shape" in k).items)  # type: ignore[union-attr]
            tdims: list[int | None] = list(range(r)) if "dim" in tnames else [None]
            for td in tdims:
                inst = f"rewrite[{btag}" + (f";top-dim={td}]" if td is not None else "]")
                it = Interp(repo)
                st = State()
                try:
                    bots = list(it.construct(ClassV(bot_c), [], bkw, st, Frame(binit, 0)))
                    for bot, s1 in bots:
                        bshape = list(it.getattr(bot, "shape", s1, Frame(binit, 0)))
                        if len(bshape) != 1 or not isinstance(bshape[0][0], TupleV):
                            continue
                        sv, s1 = bshape[0]
                        if td is not None and td >= len(sv.items):
                            continue
                        tkw: dict[str, V] = {"in_shape": sv, "num_folds": IntV(F)}
                        if td is not None:
                            tkw["dim"] = mkint(td)
                        tops = list(it.construct(ClassV(top_c), [], tkw, s1, Frame(tinit, 0)))
                        for top, s2 in tops:
                            n += 1
                            obs.append(_one_param_rewrite(ctx, fn, top, bot, s2, inst))
                except ShapeError as e:
                    obs.append(viol("R12b", fn.qualname, inst, f"{e.msg} [{e.where}]", fn.loc))
                except (PathLimit, RecursionError):
                    obs.append(unres("R12b", fn.qualname, inst, "path limit", fn.loc))
        if n == 0:
            obs.append(unres("R12b", fn.qualname, "setup", "no abstract match could be built", fn.loc))
    return r4._dedup(obs)


def _pfwd(ctx: Ctx, it: Interp, node: ObjV, xs: list[V], st: State) -> list[tuple[V, State]]:
    f = ctx.repo.lookup(node.cls, "forward")
    assert f is not None
    return list(it.call(f, xs, {}, st, selfv=node))


def _one_param_rewrite(ctx: Ctx, fn: FuncInfo, top: ObjV, bot: ObjV, st0: State, inst: str) -> Ob:
    st = st0.copy()
    ins = st.heap[bot.oid].get("_in_shapes")
    if not (isinstance(ins, TupleV) and all(isinstance(x, TupleV) for x in ins.items)):
        return unres("R12b", fn.qualname, inst, "input shapes unresolved", fn.loc)
    xs: list[V] = [fresh_tensor(st.norm_shape((F,) + tuple(y.d for y in x.items))) for x in ins.items]  # type: ignore[union-attr]
    try:
        it1 = Interp(ctx.repo)
        r1 = [(v, s) for v, s in _pfwd(ctx, it1, bot, xs, st.copy()) if isinstance(v, TensorV)]
        if len(r1) != 1:
            return unres("R12b", fn.qualname, inst, "bottom node forward did not resolve", fn.loc)
        y1, s1 = r1[0]
        r2 = [(v, s) for v, s in _pfwd(ctx, it1, top, [y1], s1) if isinstance(v, TensorV)]
        if len(r2) != 1:
            return unres("R12b", fn.qualname, inst, "top node forward did not resolve", fn.loc)
        y, _ = r2[0]
        it2 = Interp(ctx.repo)
        s3 = st.copy()
        comp = _compiler(ctx, s3)
        ms = _match(ctx, it2, s3, [top, bot])
        if not ms:
            return unres("R12b", fn.qualname, inst, "match object not constructed", fn.loc)
        mv, s4 = ms[0]
        news = list(it2.call(fn, [comp, mv], {}, s4))
        if not news:
            return ok("R12b", fn.qualname, inst, "the rule declines this configuration (raises)", fn.loc, nontrivial=False)
        nv, s5 = news[0]
        mods = list(nv.items) if isinstance(nv, TupleV) else [nv]
        if not mods or any(not isinstance(m, ObjV) for m in mods):
            return unres("R12b", fn.qualname, inst, f"rewritten nodes not resolved: {nv!r}", fn.loc)
        cur: list[V] = xs
        for k, m in enumerate(mods):
            rs = [(v, s) for v, s in _pfwd(ctx, it2, m, cur, s5) if isinstance(v, TensorV)]  # type: ignore[arg-type]
            if len(rs) != 1:
                return unres("R12b", fn.qualname, inst, f"forward of rewritten node {k} did not resolve", fn.loc)
            v, s5 = rs[0]
            cur = [v]
        return _cmp(fn.qualname, inst, fn.loc, y, cur[0], s5, frozenset(), frozenset())
    except ShapeError as e:
        return viol("R12b", fn.qualname, inst, f"{e.msg} [{e.where}]", fn.loc)
    except (PathLimit, RecursionError):
        return unres("R12b", fn.qualname, inst, "path limit", fn.loc)


# ------------------------------------------------------------------------------- shatter rules (tensor-dot)
KRON_PARAM = "cirkit.backend.torch.parameters.nodes.TorchKroneckerParameter"


def _split_pairs(sig: frozenset) -> frozenset:
    """a pairing of two layouts of equal length is the same as the atom-wise pairings"""
    out = set()
    for item in sig:
        if item[0] == "pair" and len(item[1]) == 2:
            a, b = item[1]
            la = [x.strip() for x in a.strip("[]").split(",")]
            lb = [x.strip() for x in b.strip("[]").split(",")]
            if len(la) == len(lb) and len(la) > 1:
                for x, y in zip(la, lb):
                    out.add(("pair", tuple(sorted((f"[{x}]", f"[{y}]")))))
                continue
        out.add(item)
    return frozenset(out)


def shatter_rewrites(ctx: Ctx) -> list[Ob]:
    """the two tensor-dot rules: a layer whose weight is a Kronecker product A (x) B of two parameters
    is replaced by two tensor-dot layers with weights A and B.  Both sides are interpreted on an input
    whose unit axis is laid out [u1 (a1 units), u2 (b1 units)]: same output layout
    [<A#0>, <B#0>], same pairings u1 <-> <A#1>, u2 <-> <B#1>."""
    repo = ctx.repo
    obs: list[Ob] = []
    a0, a1, b0, b1 = (Dim.sym(s) for s in ("a0", "a1", "b0", "b1"))
    for pc, fn in _registry(ctx, OPT_LAYERS, "DEFAULT_LAYER_SHATTER_OPT_RULES"):
        entries = _pattern_entries(ctx, pc)
        if entries is None or len(entries) != 1:
            obs.append(unres("R12b", fn.qualname, "setup", f"pattern {pc.name}: not a single-entry pattern", fn.loc))
            continue
        top_c = entries[0]
        inst = "rewrite[kronecker weight]"
        it = Interp(repo)
        it.pairings = []  # type: ignore[attr-defined]
        st = State()
        try:
            kc = repo.cls(KRON_PARAM)
            kinit = repo.lookup(kc, "__init__")
            assert kinit is not None
            sA = TupleV((IntV(a0), IntV(a1)))
            sB = TupleV((IntV(b0), IntV(b1)))
            kb = list(it.construct(ClassV(kc), [], {"in_shape1": sA, "in_shape2": sB, "num_folds": mkint(1)}, st, Frame(kinit, 0)))
            if not kb:
                obs.append(unres("R12b", fn.qualname, inst, "Kronecker parameter not constructed", fn.loc))
                continue
            knode, s1 = kb[0]
            pA = new_param(s1, "A", sA, Dim.const(1))
            pB = new_param(s1, "B", sB, Dim.const(1))
            # weight = TorchParameter.from_binary(kron, A, B), through the model of the class
            from ..tensor_ops import model_op

            ws = list(model_op(it, "TorchParameter.from_binary", None, [knode, pA, pB], {}, s1, Frame(fn, 0), fn.node))
            if not ws or not isinstance(ws[0][0], ParamV):
                obs.append(unres("R12b", fn.qualname, inst, "Kronecker weight not composed", fn.loc))
                continue
            weight, s2 = ws[0]
            # the matched layer
            choice = {k: v for k, v in next(iter(r4._layer_choices(ctx, top_c)))[1].items()}
            choice["num_input_units"] = lambda st_: IntV(a1 * b1)
            choice["num_output_units"] = lambda st_: IntV(a0 * b0)
            if "arity" in choice:
                choice["arity"] = lambda st_: mkint(1)
            if "num_folds" in choice:
                choice["num_folds"] = lambda st_: mkint(1)
            choice["weight"] = lambda st_, w=weight: w
            tops = list(r4._build_layer(ctx, it, top_c, s2, choice))
            if not tops:
                obs.append(unres("R12b", fn.qualname, inst, f"{top_c.name} with a Kronecker weight not constructed", fn.loc))
                continue
            top, s3 = tops[0]
            x = TensorV((Dim.const(1), Dim.const(1), B, a1 * b1), "float", ((), (), (("B", B),), (("u1", a1), ("u2", b1))))
            it.pairings = []  # type: ignore[attr-defined]
            r1 = [(v, s) for v, s in _fwd(ctx, it, top, x, s3.copy()) if isinstance(v, TensorV)]
            if len(r1) != 1:
                obs.append(unres("R12b", fn.qualname, inst, "matched layer forward did not resolve", fn.loc))
                continue
            y, s4 = r1[0]
            sig_o, _ = _signature(it.pairings, s4)  # type: ignore[attr-defined]
            # the match: entries = [top], sub_entries = [{"weight": [match(entries=[kron node])]}]
            it2 = Interp(repo)
            it2.pairings = []  # type: ignore[attr-defined]
            s5 = s3.copy()
            comp = _compiler(ctx, s5)
            sub = _match(ctx, it2, s5, [knode])
            if not sub:
                obs.append(unres("R12b", fn.qualname, inst, "sub-match not constructed", fn.loc))
                continue
            subm, s6 = sub[0]
            from ..shapes import DictV, StrV

            mc = repo.cls(MATCH)
            minit = repo.lookup(mc, "__init__")
            assert minit is not None
            ms = list(it2.construct(ClassV(mc), [Unknown("pattern"), TupleV((top,), "list"), TupleV((DictV(((StrV("weight"), TupleV((subm,), "list")),)),), "list")], {}, s6, Frame(minit, 0)))
            if not ms:
                obs.append(unres("R12b", fn.qualname, inst, "match object not constructed", fn.loc))
                continue
            mv, s7 = ms[0]
            news = list(it2.call(fn, [comp, mv], {}, s7))
            if not news:
                obs.append(viol("R12b", fn.qualname, inst, "the rule (or a tensor-dot constructor) refuses a layer its own pattern matches", fn.loc))
                continue
            nv, s8 = news[0]
            mods = list(nv.items) if isinstance(nv, TupleV) else [nv]
            if not mods or any(not isinstance(m, ObjV) for m in mods):
                obs.append(unres("R12b", fn.qualname, inst, f"rewritten modules not resolved: {nv!r}", fn.loc))
                continue
            it2.pairings = []  # type: ignore[attr-defined]
            cur: V = x
            okk = True
            for k, m in enumerate(mods):
                rs = [(v, s) for v, s in _fwd(ctx, it2, m, cur, s8) if isinstance(v, TensorV)]  # type: ignore[arg-type]
                if len(rs) != 1:
                    obs.append(unres("R12b", fn.qualname, inst, f"forward of rewritten module {k} did not resolve", fn.loc))
                    okk = False
                    break
                cur, s8 = rs[0]
                if k + 1 < len(mods):
                    cur = _stack_input(cur)  # type: ignore[arg-type]
            if not okk:
                continue
            sig_n, _ = _signature(it2.pairings, s8)  # type: ignore[attr-defined]
            obs.append(_cmp(fn.qualname, inst, fn.loc, y, cur, s8, _split_pairs(sig_o), _split_pairs(sig_n)))
        except ShapeError as e:
            obs.append(viol("R12b", fn.qualname, inst, f"{e.msg} [{e.where}]", fn.loc))
        except (PathLimit, RecursionError):
            obs.append(unres("R12b", fn.qualname, inst, "path limit", fn.loc))
    return obs



# ------------------------------------------------------------------------------------------ R12c
def pattern_entry_subclasses(ctx: Ctx) -> list[Ob]:
    """R12c -- a pattern entry matches one computation.

    The chain matchers test ``isinstance(module, entry_class)``.  A rewrite rule is an identity about
    what the *entry class* computes; a strict subclass that overrides ``forward`` (or the layer-side
    evaluation methods) computes something else but is matched all the same -- making
    ``TorchOuterSumParameter`` a subclass of ``TorchOuterProductParameter`` to share its constructor
    lets ``ReduceSum(OuterSum(a, b))`` be fused into the einsum of ``ReduceSum(OuterProduct(a, b))``.
    For every class named by an ``entries()`` of an optimisation pattern, no strict subclass in the
    repository may redefine an evaluation method."""
    import ast as _ast

    from ..model import unparse as _unparse

    repo = ctx.repo
    out: list[Ob] = []
    eval_methods = ("forward", "__call__", "sample", "integrate", "log_partition_function", "log_unnormalized_likelihood")
    entries: dict[str, set[str]] = {}
    for c in repo.classes.values():
        if not c.module.name.startswith("cirkit.backend.torch.optimization"):
            continue
        f = c.methods.get("entries")
        if f is None:
            continue
        for r in _ast.walk(f.node):
            if isinstance(r, _ast.Return) and isinstance(r.value, (_ast.List, _ast.Tuple)):
                for e in r.value.elts:
                    k = repo.get_class(c.module, e)
                    if k is not None:
                        entries.setdefault(k.qualname, set()).add(c.name)
    for q, pats in sorted(entries.items()):
        k = repo.cls(q)
        subs = [x for x in repo.subclasses(k) if x is not k]
        bad = [(x, m) for x in subs for m in eval_methods if m in x.methods and not x.methods[m].is_abstract]
        inst = f"entry:{k.name}"
        if bad:
            x, m = bad[0]
            out.append(viol("R12c", q, inst, f"{x.name} is a subclass of the pattern entry class {k.name} (patterns {sorted(pats)}) and redefines {m}(): the matcher's isinstance test accepts it, and the rewrite that is an identity for {k.name} replaces a different computation", x.loc))
        else:
            out.append(ok("R12c", q, inst, f"no subclass redefines an evaluation method ({len(subs)} subclass(es)); matched by {sorted(pats)}", k.loc))
    if not entries:
        out.append(unres("R12c", "cirkit.backend.torch.optimization", "entries", "no pattern entries() found", ""))
    return out


if __name__ == "__main__":
    import sys

    roots = [a for a in sys.argv[1:] if not a.startswith("-")]
    cx = Ctx(roots[0] if roots else None)
    for o in layer_rewrites(cx) + param_rewrites(cx) + shatter_rewrites(cx):
        if o.status != "ok" or "-v" in sys.argv:
            print(o.status.upper(), o.line()[:400])
