"""R7i -- input-order preservation when an operator re-wires copied layers.

Every operator in ``cirkit.symbolic.functional`` copies layers of its operand (``copyref``) and
re-connects each copy to the images of the original's inputs.  Product layers are *ordered*
(Kronecker products, and the pairing done by ``multiply``), sum layers index their weight columns by
input position: the image list must therefore be an order-preserving **total map** of
``sc.layer_inputs(sl)``.  Decided on the shape of the code: every comprehension / generator in the
operator drivers whose ``for`` clause iterates ``<circuit>.layer_inputs(<layer>)``

  * has no ``if`` filter on that clause (a filter drops or re-positions an input),
  * is not an operand of a list concatenation (``[x] + [.. for ..]`` moves an input to the front),
  * is not wrapped in ``sorted`` / ``reversed`` / ``set`` / ``frozenset``.

The explicit scope-sorted pairing of ``multiply`` is a call of ``sorted`` on a plain list, not a
comprehension over ``layer_inputs``, and is checked by R7a instead.
"""

from __future__ import annotations

import ast

from ..core import Ctx, Ob, ok, viol
from ..model import FuncInfo, dotted, unparse

FUNCTIONAL = "cirkit.symbolic.functional"
REORDER = {"sorted", "reversed", "set", "frozenset"}


def _parents(root: ast.AST) -> dict[int, ast.AST]:
    out: dict[int, ast.AST] = {}
    for p in ast.walk(root):
        for c in ast.iter_child_nodes(p):
            out[id(c)] = p
    return out


def _over_layer_inputs(g: ast.comprehension) -> bool:
    it = g.iter
    return isinstance(it, ast.Call) and isinstance(it.func, ast.Attribute) and it.func.attr == "layer_inputs" and len(it.args) == 1


def _over_outputs(g: ast.comprehension) -> bool:
    return isinstance(g.iter, ast.Attribute) and g.iter.attr == "outputs"


def rewiring_order(ctx: Ctx, funcs: list[str], module: str = FUNCTIONAL, with_outputs: bool = False) -> list[Ob]:
    obs: list[Ob] = []
    for fn in funcs:
        f: FuncInfo = ctx.repo.func(f"{module}.{fn}")
        par = _parents(f.node)
        k = 0
        for n in ast.walk(f.node):
            if not isinstance(n, (ast.ListComp, ast.GeneratorExp)):
                continue
            gens = [g for g in n.generators if _over_layer_inputs(g) or (with_outputs and _over_outputs(g))]
            if not gens:
                continue
            site = f"{f.module.relpath}:{n.lineno}"
            inst = f"rewire#{k}:{unparse(gens[0].iter)}"
            k += 1
            bad = None
            if any(g.ifs for g in gens):
                bad = "filters the inputs (`if`): an input is dropped or the positions of the others shift"
            p = par.get(id(n))
            # climb through a starred / call-argument wrapper
            hops = 0
            while bad is None and p is not None and hops < 3:
                if isinstance(p, ast.BinOp) and isinstance(p.op, ast.Add):
                    bad = "is concatenated with another list: the inputs are re-positioned"
                elif isinstance(p, ast.Call) and (dotted(p.func) or "").split(".")[-1] in REORDER:
                    bad = f"is wrapped in {dotted(p.func)}(..): the operand's input order is lost"
                elif isinstance(p, (ast.Starred, ast.keyword)) or (isinstance(p, ast.Call) and (dotted(p.func) or "") in ("list", "tuple")):
                    p = par.get(id(p))
                    hops += 1
                    continue
                break
            if bad is None:
                obs.append(ok("R7i", f.qualname, inst, "order-preserving total map of the operand's inputs", site))
            else:
                obs.append(viol("R7i", f.qualname, inst, f"the image of the inputs of a copied layer {bad}; product layers (Kronecker) and sum weights are positional", site))
    return obs
