"""R8 -- guards (error discipline), decided on the CFG with truth-table pruning.

An obligation is ``(function, env)``: under every valuation consistent with *env* the function
must not reach a normal exit (it raises).  Edges of the CFG whose branch condition is decided by
*env* the other way are pruned; the obligation holds iff EXIT (or, for per-iteration guards, the
end of the loop body) is unreachable in the pruned graph.
"""

from __future__ import annotations

import ast
from dataclasses import dataclass, field
from typing import Any

from ..boolexpr import ALWAYS, DEPENDS, EMPTY, NEVER, fires
from ..cfg import ENTRY, EXIT, RAISE, CFG, build_cfg
from ..core import Ctx, Ob, note, ok, unres, viol
from ..model import AnalysisError, dotted, unparse, walk_no_nested


@dataclass
class Guard:
    func: str
    label: str
    env: dict[str, Any]
    exc: str | None = None  # documented exception class (None: any raise)
    loop: str | None = None  # the guard is per iteration of the loop whose iterator contains this text
    consults: set[str] = field(default_factory=set)  # fallback: a raise-guard must read these names
    why: str = ""
    refuse_none: bool = False  # a `return None` counts as the refusal (pattern matchers), not as a normal completion


def _is_return_none(s: ast.AST | None) -> bool:
    return isinstance(s, ast.Return) and (s.value is None or (isinstance(s.value, ast.Constant) and s.value.value is None))


def _pruned_reach(g: CFG, env: dict[str, Any], start: int, stop: set[int] | None = None, refuse_none: bool = False, xf: Any = None) -> tuple[set[int], bool]:
    """Nodes reachable from *start* when edges contradicted by env are removed.
    Second result: whether some env-relevant test could not be decided (DEPENDS on free atoms
    that mention an env key)."""
    seen = {start}
    stack = [start]
    while stack:
        a = stack.pop()
        if stop and a in stop and a != start:
            continue
        if refuse_none and _is_return_none(g.stmts.get(a)):
            continue  # a refusal: the function gives up here
        for b, lab in g.succ.get(a, []):
            if lab is not None and lab[0] is not None:
                verdict, _free = fires(lab[0] if xf is None else xf(a, lab[0]), env)
                if verdict == ALWAYS and lab[1] is False:
                    continue
                if verdict == NEVER and lab[1] is True:
                    continue
            if b not in seen:
                seen.add(b)
                stack.append(b)
    return seen, False


def _raise_class(s: ast.AST) -> str | None:
    if isinstance(s, ast.Raise) and s.exc is not None:
        e = s.exc.func if isinstance(s.exc, ast.Call) else s.exc
        return (dotted(e) or "?").split(".")[-1]
    return None


def _tests_text(fn: ast.AST) -> str:
    return " ; ".join(unparse(n.test) for n in walk_no_nested(fn) if isinstance(n, (ast.If, ast.While, ast.Assert)))


_CANON_SPECS: dict[str, Any] | None = None


def canon_specs() -> dict[str, Any]:
    """canonical (rename- and hoist-invariant, see sa/canon.py) forms of the guard tables' condition
    texts, generated once from the tree the tables were written against (tools/gen_r8_canon.py)"""
    global _CANON_SPECS
    if _CANON_SPECS is None:
        import json
        import os

        p = os.path.join(os.path.dirname(__file__), "r8_canon.json")
        _CANON_SPECS = json.load(open(p)) if os.path.exists(p) else {}
    return _CANON_SPECS


def _flow_canon(ctx: Ctx, func: str, g: CFG) -> Any:
    from ..canon import FlowCanon

    return ctx.memo("flowcanon:" + func, lambda: FlowCanon(g))


def _canon_env(sp_id: str, env: dict[str, Any]) -> dict[str, Any] | None:
    spec = canon_specs().get(sp_id)
    if spec is None:
        return None
    out = dict(env)
    for raw, alts in spec.get("env", {}).items():
        if raw in env:
            for a in alts:
                out[a] = env[raw]
    return out


def check_guard(ctx: Ctx, sp: Guard) -> Ob:
    """the guard is looked for under the names the table uses and, failing that, under canonical
    names (locals replaced by the definitions that reach the condition): a renamed or hoisted local
    is not a missing guard"""
    res = _check_guard(ctx, sp, canonical=False)
    if res.status == "violation":
        alt = _check_guard(ctx, sp, canonical=True)
        if alt is not None and alt.status == "ok":
            return alt
    return res


def _check_guard(ctx: Ctx, sp: Guard, canonical: bool) -> Ob:
    f = ctx.repo.func(sp.func)
    g = ctx.memo("cfg:" + sp.func, lambda: build_cfg(f.node))
    inst = sp.label
    xf = None
    env = sp.env
    loop_texts: list[str] = []
    if canonical:
        sp_id = f"{sp.func}::{sp.label}"
        env_c = _canon_env(sp_id, sp.env)
        if env_c is None:
            return None  # type: ignore[return-value]
        fc = _flow_canon(ctx, sp.func, g)
        cache: dict[tuple[int, int], ast.AST] = {}

        def xf(a: int, test: ast.AST) -> ast.AST:  # noqa: F811
            k = (a, id(test))
            if k not in cache:
                cache[k] = fc.expr(test, a)
            return cache[k]

        env = env_c
        loop_texts = canon_specs()[sp_id].get("loops", [])
    if sp.loop is None:
        reach, _ = _pruned_reach(g, env, ENTRY, refuse_none=sp.refuse_none, xf=xf)
        escaped = EXIT in reach
        start_desc = "the function"
    else:
        if canonical:
            fc = _flow_canon(ctx, sp.func, g)
            loops = [n for n, s in g.stmts.items() if isinstance(s, (ast.For, ast.While)) and fc.text(s.iter if isinstance(s, ast.For) else s.test, n) in loop_texts]
        else:
            loops = [n for n, s in g.stmts.items() if isinstance(s, (ast.For, ast.While)) and sp.loop in unparse(s.iter if isinstance(s, ast.For) else s.test)]
        if not loops:
            return viol("R8", sp.func, inst, f"the per-layer validation loop over `{sp.loop}` no longer exists: {sp.why}", f.loc)
        # several loops may iterate the same collection (e.g. two `for x in node_children`): the
        # guard holds if it holds for one of them (the env names the variables of that loop)
        escaped = True
        reach = set()
        for ln in loops:
            # body entry nodes = successors of the loop header that are inside the body
            body_ids = {id(x) for st in g.stmts[ln].body for x in ast.walk(st)}
            starts = [b for b, _ in g.succ[ln] if b in g.stmts and id(g.stmts[b]) in body_ids]
            esc_here = False
            reach_here = set()
            for st in starts:
                r, _ = _pruned_reach(g, env, st, stop={ln}, refuse_none=sp.refuse_none, xf=xf)
                reach_here |= r
                # the iteration completes if it gets back to the header or leaves the function normally
                if ln in r or EXIT in r:
                    # `continue` inside a branch that env excludes is already pruned
                    esc_here = True
            reach |= reach_here
            if not esc_here:
                escaped = False
                reach = reach_here
                break
        start_desc = f"an iteration of the loop over `{sp.loop}`"
    raised = sorted({c for n in reach if n in g.stmts and (c := _raise_class(g.stmts[n]))})
    if sp.refuse_none and any(_is_return_none(g.stmts.get(n)) for n in reach):
        raised = raised + ["return None"]
    if not escaped:
        if sp.exc is not None and sp.exc not in raised:
            return viol("R8", sp.func, inst, f"under {_fmt(sp.env)} the function raises {raised}, not the documented {sp.exc}", f.loc)
        if sp.exc is not None and any(r != sp.exc and r != "return None" for r in raised):
            others = [r for r in raised if r != sp.exc]
            return viol("R8", sp.func, inst, f"under {_fmt(sp.env)} the function can raise {others} before it reaches the documented {sp.exc}: for some values of the other arguments the refusal has another type (the documented error is promised for *any* such input, so its check has to come first)", f.loc)
        return ok("R8", sp.func, inst, f"under {_fmt(sp.env)} {start_desc} cannot complete normally (raises {raised})" + (" [conditions matched under canonical names of the locals]" if canonical else ""), f.loc)
    # escaped: is it because the guard is gone / weakened, or because we cannot read it?
    tests = _tests_text(f.node)
    simple = all(_is_simple(k) for k in sp.env)
    seen_keys = [k for k in sp.env if k in tests or _root(k) in tests]
    if simple or len(seen_keys) == len(sp.env):
        return viol(
            "R8",
            sp.func,
            inst,
            f"under {_fmt(sp.env)} {start_desc} can still complete normally: the guard is missing, weakened (e.g. `or` -> `and`, "
            f"dropped disjunct, inverted comparison) or bypassed. {sp.why}",
            f.loc,
        )
    # complex atom not found textually: fall back to a must-consult check
    if sp.consults:
        for n in walk_no_nested(f.node):
            if isinstance(n, ast.If) and any(isinstance(b, ast.Raise) for b in n.body):
                names = {x.id for x in ast.walk(n.test) if isinstance(x, ast.Name)} | {x.attr for x in ast.walk(n.test) if isinstance(x, ast.Attribute)}
                if sp.consults <= names:
                    return unres("R8", sp.func, inst, f"a raising guard reading {sorted(sp.consults)} exists but its condition `{unparse(n.test)}` is not in the form the truth table knows", f.loc)
        return viol("R8", sp.func, inst, f"no raising guard reads {sorted(sp.consults)}: {sp.why}", f.loc)
    return unres("R8", sp.func, inst, f"cannot decide: the atoms {sorted(sp.env)} do not occur in the function's conditions", f.loc)


def _is_simple(k: str) -> bool:
    return all(ch.isalnum() or ch in "._" for ch in k)


def _root(k: str) -> str:
    return k.split("(")[0].split(" ")[0]


def _fmt(env: dict[str, Any]) -> str:
    return "{" + ", ".join(f"{k}={'<empty>' if v is EMPTY else v!r}" for k, v in env.items()) + "}"


def dominates_call(ctx: Ctx, func: str, guard_env: dict[str, Any], call_name: str, label: str, why: str) -> Ob:
    """Every path from ENTRY to a node calling *call_name* is cut when env holds (the guard
    protects the construction site)."""
    f = ctx.repo.func(func)
    g = ctx.memo("cfg:" + func, lambda: build_cfg(f.node))
    reach, _ = _pruned_reach(g, guard_env, ENTRY)
    from ..cfg import stmt_calls

    def _callee(c: ast.Call) -> str:
        if isinstance(c.func, ast.Attribute):
            return c.func.attr
        return (dotted(c.func) or "").split(".")[-1]

    sites = [n for n in g.stmts if any(_callee(c) == call_name for c in stmt_calls(g.stmts[n]))]
    if not sites:
        return unres("R8", func, label, f"no call of {call_name} found", f.loc)
    hit = [n for n in sites if n in reach]
    if hit:
        env_c = _canon_env(f"{func}::{label}", guard_env)
        if env_c is not None:
            fc = _flow_canon(ctx, func, g)
            reach_c, _ = _pruned_reach(g, env_c, ENTRY, xf=lambda a, t: fc.expr(t, a))
            if not [n for n in sites if n in reach_c]:
                hit = []
    if hit:
        return viol("R8", func, label, f"under {_fmt(guard_env)} the construction site {call_name}(..) is still reachable ({g.describe(hit[0])}): {why}", f.loc)
    return ok("R8", func, label, f"under {_fmt(guard_env)} {call_name}(..) is unreachable", f.loc)


FUNC = "cirkit.symbolic.functional."
SPE = "StructuralPropertyError"

GUARDS_INTEGRATE = [
    Guard(FUNC + "integrate", "non-smooth", {"sc.is_smooth": False}, SPE, why="integrate must refuse non-smooth circuits"),
    Guard(FUNC + "integrate", "non-decomposable", {"sc.is_smooth": True, "sc.is_decomposable": False}, SPE, why="integrate must refuse non-decomposable circuits"),
    Guard(FUNC + "integrate", "empty-scope", {"sc.is_smooth": True, "sc.is_decomposable": True, "scope is None": False, "scope": EMPTY}, why="an empty integration scope must be rejected"),
    Guard(FUNC + "integrate", "scope-not-subset", {"sc.is_smooth": True, "sc.is_decomposable": True, "scope is None": False, "scope": True, "scope <= sc.scope": False}, consults={"scope"}, why="variables outside the circuit scope must be rejected"),
]
GUARDS_DIFFERENTIATE = [
    Guard(FUNC + "differentiate", "non-smooth", {"sc.is_smooth": False}, SPE, why="differentiate must refuse non-smooth circuits"),
    Guard(FUNC + "differentiate", "non-decomposable", {"sc.is_smooth": True, "sc.is_decomposable": False}, SPE, why="differentiate must refuse non-decomposable circuits"),
    Guard(FUNC + "differentiate", "order=0", {"sc.is_smooth": True, "sc.is_decomposable": True, "order": 0}, why="non-positive orders must be rejected"),
    Guard(FUNC + "differentiate", "order=-1", {"sc.is_smooth": True, "sc.is_decomposable": True, "order": -1}, why="non-positive orders must be rejected"),
    Guard("cirkit.pipeline.PipelineContext.differentiate", "order=0", {"self._compiler.has_symbolic(cc)": True, "order": 0}, why="non-positive orders must be rejected"),
    Guard("cirkit.symbolic.operators.differentiate_polynomial_layer", "order=0", {"var_idx == 0": True, "order": 0}, why="non-positive orders must be rejected"),
    Guard("cirkit.symbolic.parameters.PolynomialDifferential.__init__", "order=0", {"order": 0}, why="non-positive orders must be rejected"),
]
GUARDS_MULTIPLY = [
    Guard(FUNC + "multiply", "different-scope", {"sc1.scope != sc2.scope": True}, consults={"scope"}, why="multiply refuses operands over different scopes"),
    Guard(FUNC + "multiply", "incompatible", {"sc1.scope != sc2.scope": False, "are_compatible(sc1, sc2)": False}, SPE, consults={"are_compatible"}, why="multiply must raise on any pair that is not compatible"),
]
GUARDS_EVIDENCE = [
    Guard(FUNC + "evidence", "empty-observation", {"scope": EMPTY}, why="empty observations must be rejected"),
    Guard(FUNC + "evidence", "obs-not-subset", {"scope": True, "scope <= sc.scope": False}, consults={"scope"}, why="observed variables outside the scope must be rejected"),
]
GUARDS_CIRCUIT = [
    Guard("cirkit.symbolic.circuit.Circuit.__init__", "input-layer-with-inputs", {"isinstance(sl, InputLayer)": True, "len(sl_ins)": 1}, loop="topological_ordering", consults={"sl_ins"}, why="every constructed circuit is re-validated: an input layer must have no inputs"),
    Guard("cirkit.symbolic.circuit.Circuit.__init__", "arity-mismatch", {"isinstance(sl, InputLayer)": False, "sl.arity != len(sl_ins)": True}, loop="topological_ordering", consults={"arity", "sl_ins"}, why="every constructed circuit is re-validated: arity must equal the number of inputs"),
    Guard("cirkit.symbolic.circuit.Circuit.__init__", "units-mismatch", {"isinstance(sl, InputLayer)": False, "sl.arity != len(sl_ins)": False, "any((sl.num_input_units != num_units for num_units in sl_ins_units))": True}, loop="topological_ordering", consults={"num_input_units"}, why="every constructed circuit is re-validated: input unit counts must agree"),
]
GUARDS_QUERIES = [
    Guard("cirkit.backend.torch.queries.IntegrateQuery.__init__", "non-smooth", {"circuit.properties.smooth": False}, why="marginal queries require smooth circuits"),
    Guard("cirkit.backend.torch.queries.IntegrateQuery.__init__", "non-decomposable", {"circuit.properties.smooth": True, "circuit.properties.decomposable": False}, why="marginal queries require decomposable circuits"),
    Guard("cirkit.backend.torch.queries.SamplingQuery.__init__", "non-smooth", {"circuit.properties.smooth": False}, why="sampling requires smooth circuits"),
    Guard("cirkit.backend.torch.queries.SamplingQuery.__init__", "non-decomposable", {"circuit.properties.smooth": True, "circuit.properties.decomposable": False}, why="sampling requires decomposable circuits"),
    Guard("cirkit.backend.torch.queries.SamplingQuery.__call__", "num_samples=0", {"num_samples": 0}, why="non-positive sample counts must be rejected"),
    Guard("cirkit.backend.torch.queries.IntegrateQuery.__call__", "mask-dtype", {"isinstance(integrate_vars, Tensor)": True, "integrate_vars.dtype != torch.bool": True}, consults={"dtype"}, why="a non-boolean mask must be rejected"),
    Guard("cirkit.backend.torch.queries.IntegrateQuery.__call__", "mask-width", {"isinstance(integrate_vars, Tensor)": True, "integrate_vars.dtype != torch.bool": False, "integrate_vars.shape[1] == num_vars": False}, consults={"num_vars"}, why="a mask over the wrong number of variables must be rejected"),
    Guard("cirkit.backend.torch.queries.IntegrateQuery.__call__", "mask-batch", {"integrate_vars.dtype != torch.bool": False, "integrate_vars.shape[1] == num_vars": True, "integrate_vars_mask.shape[0] not in (1, x.shape[0])": True}, consults={"integrate_vars_mask"}, why="a mask whose batch size neither matches nor broadcasts must be rejected"),
    Guard("cirkit.backend.torch.queries.IntegrateQuery.scopes_to_mask", "out-of-scope", {"num_idxs == 0": False, "invalid_idxs": True}, consults={"invalid_idxs"}, why="variables outside the circuit scope must be rejected"),
    Guard("cirkit.backend.torch.queries.IntegrateQuery._layer_fn", "multivariate", {"isinstance(layer, TorchInputLayer)": True, "layer.num_variables > 1": True}, consults={"num_variables"}, why="multivariate input layers are refused, not silently mis-integrated"),
]


RG = "cirkit.templates.region_graph.graph.RegionGraph._check_structure"
GUARDS_REGION_GRAPH = [
    Guard(RG, "region-child-not-partition", {"isinstance(ptn, PartitionNode)": False}, loop="node_children", why="children of a region node must be partition nodes"),
    Guard(RG, "partition-scope-differs", {"isinstance(ptn, PartitionNode)": True, "ptn.scope != node.scope": True}, loop="node_children", consults={"scope"}, why="a partition must have the scope of the region it decomposes"),
    Guard(RG, "neither-kind", {"isinstance(node, RegionNode)": False, "isinstance(node, PartitionNode)": False}, loop="nodes_inputs", why="nodes must be region or partition nodes"),
    Guard(RG, "partition-child-not-region", {"isinstance(rgn, RegionNode)": False}, loop="node_children", why="children of a partition node must be region nodes"),
    Guard(RG, "not-covering", {"isinstance(node, RegionNode)": False, "isinstance(node, PartitionNode)": True, "isinstance(rgn, RegionNode)": True, "scope != node.scope": True}, loop="nodes_inputs", consults={"scope"}, why="the children of a partition must cover its scope"),
    Guard(RG, "overlapping", {"isinstance(node, RegionNode)": False, "isinstance(node, PartitionNode)": True, "isinstance(rgn, RegionNode)": True, "scope != node.scope": False, "sum((len(sc) for sc in scopes)) != len(scope)": True}, loop="nodes_inputs", consults={"scopes"}, why="the children of a partition must be pairwise disjoint"),
]


_TWO = ("a", "b")
_ONE = ("a",)
COMP = "cirkit.backend.torch.compiler."


def _matcher_guards(func: str, idx: str) -> list[Guard]:
    """a chain pattern may only be fused when every entry but the root feeds exactly one module and
    every entry but the last reads exactly one: otherwise the fused module replaces a value other
    modules still need (fan-out) or drops an input (fan-in)."""
    out = []
    for k, n in ((1, 2), (1, 3), (2, 3)):
        out.append(Guard(func, f"fan-out,entry={k}/{n}", {idx: k, "num_entries": n, "out_nodes": _TWO, "in_nodes": _ONE}, loop="range(num_entries)", refuse_none=True,
                         why="a non-root pattern entry with more than one consumer must not be fused into the match"))
    for k, n in ((0, 2), (0, 3), (1, 3)):
        out.append(Guard(func, f"fan-in,entry={k}/{n}", {idx: k, "num_entries": n, "in_nodes": _TWO, "out_nodes": _ONE}, loop="range(num_entries)", refuse_none=True,
                         why="a pattern entry other than the last with more than one input must not be fused into the match"))
    return out


# the spellings of 'some entry of the per-layer mask is set' (all of them atoms of the truth table)
ANY_SPELLINGS = (
    "torch.any(integration_mask).item()",
    "torch.any(integration_mask)",
    "integration_mask.any().item()",
    "integration_mask.any()",
    "bool(torch.any(integration_mask))",
    "bool(integration_mask.any())",
)

# guard environments used through dominates_call (props C06 / C09, rules/extra.py): canonical forms are generated for them too
EXTRA_CANON_SPECS = [
    Guard(FUNC + "evidence", "partial-multivariate", {"isinstance(sl, InputLayer)": True, "sl.scope & scope": True, "sl.scope <= scope": False}),
    Guard("cirkit.backend.torch.queries.IntegrateQuery._layer_fn", "nothing-selected", {"isinstance(layer, TorchInputLayer)": True, "layer.num_variables > 1": False, **{k: False for k in ANY_SPELLINGS}}),
    Guard("cirkit.templates.logic.graph.LogicalCircuit.smooth", "smoothing-conjoins", {"len(missing_literals) > 0": True, "isinstance(input_to_d, ConjunctionNode)": False}),
    Guard(FUNC + "multiply", "overlap-different-scope", {"sc1.scope != sc2.scope": False, "are_compatible(sc1, sc2)": True, "pair in layers_to_block": False,
          "sc1.layer_scope(l1) & sc2.layer_scope(l2)": True, "sc1.layer_scope(l1) != sc2.layer_scope(l2)": True}),
    Guard(FUNC + "multiply", "disjoint-different-size", {"sc1.scope != sc2.scope": False, "are_compatible(sc1, sc2)": True, "pair in layers_to_block": False,
          "sc1.layer_scope(l1) & sc2.layer_scope(l2)": False, "l1.num_output_units != l2.num_output_units": True}),
]

GUARDS_MATCHERS = _matcher_guards(COMP + "_match_layer_pattern", "lid") + _matcher_guards(COMP + "_match_parameter_nodes_pattern", "nid")


def run_guards(ctx: Ctx, guards: list[Guard]) -> list[Ob]:
    return [check_guard(ctx, g) for g in guards]


# ------------------------------------------------------------------------------- R8m: membership guards
def scope_membership(ctx: Ctx, fq: str, label: str, within: str | None = None) -> list[Ob]:
    """R8m -- 'variables outside the scope are rejected' is a *membership* test: the condition of the
    refusing guard derives (through local definitions) from the circuit's scope used as a set --
    difference / intersection / subset comparison / ``in`` -- not merely from its largest id.  A
    bound test (``idx >= max(scope) + 1``) accepts every id in a gap of a scope that is not 0..n-1."""
    from ..flow import LocalDefs

    f = ctx.repo.func(fq)
    ld = LocalDefs(f.node)
    out: list[Ob] = []
    guards = [n for n in walk_no_nested(f.node) if isinstance(n, ast.If) and (any(isinstance(b, ast.Raise) for b in n.body) or any(isinstance(b, ast.Raise) for b in n.orelse))]
    if within is not None:
        # only the guards under `if <within>` (e.g. the mask-tensor path of a query)
        keep = []
        for top in walk_no_nested(f.node):
            if isinstance(top, ast.If) and within in unparse(top.test):
                keep += [g for g in guards if any(g is x for x in ast.walk(top)) and g is not top]
        guards = keep
    # stores into a container (`m[list(scope)] = True`) are part of what a name holds
    stores: dict[str, list[ast.AST]] = {}
    for n in walk_no_nested(f.node):
        if isinstance(n, ast.Assign):
            for t in n.targets:
                if isinstance(t, ast.Subscript) and isinstance(t.value, ast.Name):
                    stores.setdefault(t.value.id, []).extend([t.slice, n.value])

    def collection_use(e: ast.AST, under_bound: bool = False) -> bool:
        """`.scope` read other than through max / min / len (its members, not only a bound)"""
        if isinstance(e, ast.Call) and (dotted(e.func) or "") in ("max", "min", "len"):
            under_bound = True
        if isinstance(e, ast.Attribute) and e.attr == "scope" and not under_bound:
            return True
        return any(collection_use(c, under_bound) for c in ast.iter_child_nodes(e))

    decided = False
    results: list[tuple[bool, ast.If, str]] = []
    for g in guards:
        exprs = ld.expand(g.test)
        extra = [x for e in exprs for nm in ast.walk(e) if isinstance(nm, ast.Name) for x in stores.get(nm.id, [])]
        exprs = list(exprs) + extra + [y for x in extra for y in ld.expand(x)]
        txt_all = " ".join(unparse(e) for e in exprs)
        if ".scope" not in txt_all:
            continue
        decided = True
        set_use = any(collection_use(e) for e in extra)
        for e in exprs:
            for x in ast.walk(e):
                if isinstance(x, ast.BinOp) and isinstance(x.op, (ast.Sub, ast.BitAnd, ast.BitOr, ast.BitXor)) and (".scope" in unparse(x.left) or ".scope" in unparse(x.right)):
                    if not (isinstance(x.left, ast.Call) and (dotted(x.left.func) or "") in ("max", "min", "len")) and not (isinstance(x.right, ast.Constant)):
                        set_use = True
                if isinstance(x, ast.Compare) and any(isinstance(o, (ast.In, ast.NotIn, ast.LtE, ast.GtE, ast.Lt, ast.Gt)) for o in x.ops):
                    sides = [x.left] + list(x.comparators)
                    if any(unparse(s_).endswith(".scope") for s_ in sides):
                        set_use = True
                if isinstance(x, ast.Call) and isinstance(x.func, ast.Attribute) and x.func.attr in ("difference", "issubset", "issuperset", "intersection", "isdisjoint"):
                    if ".scope" in unparse(x):
                        set_use = True
        site = f"{f.module.relpath}:{g.lineno}"
        results.append((set_use, g, site))
    # one refusal by membership is what the clause asks for: further bound checks (the width of a mask)
    # next to it are not its violation
    if any(r[0] for r in results):
        g, site = next((r[1], r[2]) for r in results if r[0])
        out.append(ok("R8m", fq, label, "a refusing condition derives from the scope's members (used as a set / a collection of ids)", site))
    for set_use, g, site in results:
        if not any(r[0] for r in results):
            out.append(viol("R8m", fq, label, f"the refusing condition `{unparse(g.test)[:50]}` derives from the scope only through a bound (max / len), not through a set operation: ids in a gap of the scope pass the check", site))
    if not decided:
        out.append(unres("R8m", fq, label, "no refusing guard whose condition derives from a scope", f.loc))
    return out


# ------------------------------------------------------------------------------- R8s: masks select, they do not scale
def mask_selects(ctx: Ctx, fq: str, mask_param: str, label: str) -> list[Ob]:
    """R8s -- a boolean mask chooses between two values with a *selection* (``torch.where``, masked
    assignment); it is never an arithmetic factor.  In log space a de-selected value may be -inf
    (probability zero) and ``0 * -inf`` is nan: a blend ``m * a + (1 - m) * b`` makes the marginal
    depend on the batch value of a variable that is being integrated out.  Decided by taint: every
    value derived from the mask parameter (through assignments, method calls on it, vmap / permute /
    dtype casts) must not be an operand of ``*`` / ``/`` / ``@``, nor of ``-`` / ``+`` arithmetic."""
    f = ctx.repo.func(fq)
    tainted = {mask_param}
    changed = True
    assigns = [n for n in walk_no_nested(f.node) if isinstance(n, (ast.Assign, ast.AnnAssign)) and getattr(n, "value", None) is not None]
    while changed:
        changed = False
        for a in assigns:
            tg = a.targets if isinstance(a, ast.Assign) else [a.target]
            names = {x.id for x in ast.walk(a.value) if isinstance(x, ast.Name)}
            if names & tainted:
                # selections launder the taint: the result of where(mask, a, b) is a value, not a mask
                if isinstance(a.value, ast.Call) and (dotted(a.value.func) or "").split(".")[-1] in ("where", "masked_fill", "masked_scatter", "any", "all"):
                    continue
                for t in tg:
                    if isinstance(t, ast.Name) and t.id not in tainted:
                        tainted.add(t.id)
                        changed = True
    out: list[Ob] = []
    bad = []
    for n in walk_no_nested(f.node):
        if isinstance(n, ast.BinOp) and isinstance(n.op, (ast.Mult, ast.Div, ast.MatMult, ast.Add, ast.Sub)):
            for side in (n.left, n.right):
                if any(isinstance(x, ast.Name) and x.id in tainted for x in ast.walk(side)) and not isinstance(side, ast.Constant):
                    # index arithmetic on shapes of the mask is not arithmetic on the mask
                    if all(isinstance(p_, ast.Attribute) and p_.attr == "shape" for p_ in ast.walk(side) if isinstance(p_, ast.Attribute)) and any(isinstance(p_, ast.Attribute) for p_ in ast.walk(side)):
                        continue
                    bad.append(n)
                    break
    if bad:
        n = bad[0]
        out.append(viol("R8s", fq, label, f"the mask enters arithmetic (`{unparse(n)[:70]}`): a de-selected -inf (log of probability zero) times 0 is nan, so the result depends on the value of a variable that is integrated out; select with torch.where", f"{f.module.relpath}:{n.lineno}"))
    else:
        sel = [n for n in walk_no_nested(f.node) if isinstance(n, ast.Call) and (dotted(n.func) or "").split(".")[-1] in ("where", "masked_fill", "masked_scatter") and any(isinstance(x, ast.Name) and x.id in tainted for x in ast.walk(n))]
        if sel:
            out.append(ok("R8s", fq, label, f"the mask is only used as a selector ({len(sel)} selection(s)), never as a factor", f.loc))
        else:
            out.append(unres("R8s", fq, label, "no selection by the mask found (another formulation): no verdict", f.loc))
    return out
