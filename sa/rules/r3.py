"""R3 -- config / constructor / fold-settings round trips."""

from __future__ import annotations

import ast

from ..core import Ctx, Ob, note, ok, unres, viol
from ..flow import LocalDefs
from ..model import AnalysisError, ClassInfo, dotted, is_self_attr, unparse, walk_no_nested

SYM_PNODE = "cirkit.symbolic.parameters.ParameterNode"
SYM_TENSOR = "cirkit.symbolic.parameters.TensorParameter"
SYM_LAYER = "cirkit.symbolic.layers.Layer"
T_LAYER = "cirkit.backend.torch.layers.base.TorchLayer"
T_INPUT = "cirkit.backend.torch.layers.input.TorchInputLayer"
T_CONST = "cirkit.backend.torch.layers.input.TorchConstantLayer"
T_INNER = "cirkit.backend.torch.layers.inner.TorchInnerLayer"
T_PNODE = "cirkit.backend.torch.parameters.nodes.TorchParameterNode"
T_POP = "cirkit.backend.torch.parameters.nodes.TorchParameterOp"
T_TENSOR = "cirkit.backend.torch.parameters.nodes.TorchTensorParameter"
T_POINTER = "cirkit.backend.torch.parameters.nodes.TorchPointerParameter"
COMPILER = "cirkit.backend.torch.compiler"


def _init_names(ctx: Ctx, c: ClassInfo) -> tuple[list[str], bool, bool]:
    init = ctx.repo.lookup(c, "__init__")
    if init is None:
        return [], False, False
    ps = init.call_params
    return (
        [p.name for p in ps if p.kind in ("pos", "kwonly")],
        any(p.kind == "vararg" for p in ps),
        any(p.kind == "kwarg" for p in ps),
    )


def _roundtrip(ctx: Ctx, c: ClassInfo, prop: str, rule: str, out: list[Ob]) -> None:
    """config[k] / params[k] returns what __init__ stored from its parameter k."""
    dv = ctx.cf.dict_property(c, prop)
    for k, (v, owner) in dv.items.items():
        st_out = ctx.cf.storage_of_expr(c, v)
        st_in = ctx.cf.init_param_storage(c, k)
        if not st_in:
            continue  # not an __init__ parameter (reported by the key-set rule) or not stored
        if st_out & st_in:
            out.append(ok(rule, c.qualname, f"roundtrip:{prop}[{k}]", f"returns storage {sorted(st_out & st_in)} written from __init__({k}=..)", c.loc))
        else:
            out.append(
                viol(
                    rule,
                    c.qualname,
                    f"roundtrip:{prop}[{k}]",
                    f"{prop}['{k}'] returns {unparse(v)} (storage {sorted(st_out)}) but __init__ stores its parameter '{k}' in {sorted(st_in)}: "
                    "a copy / fold rebuilt from it gets a different value",
                    c.loc,
                )
            )


# ------------------------------------------------------------------------------------------ R3a
def r3a(ctx: Ctx) -> list[Ob]:
    out: list[Ob] = []
    base = ctx.repo.cls(SYM_PNODE)
    tensor = ctx.repo.cls(SYM_TENSOR)
    for c in ctx.repo.subclasses(base):
        if not ctx.repo.is_concrete(c):
            continue
        names, vararg, kwarg = _init_names(ctx, c)
        if ctx.repo.is_subclass(c, tensor):
            out.append(note("R3a", c.qualname, "config==init", "tensor parameters are never copied through config (Parameter.ref maps them to references): exempt by derivation", c.loc))
            continue
        dv = ctx.cf.dict_property(c, "config")
        if dv.opaque:
            out.append(unres("R3a", c.qualname, "config==init", f"config not interpretable: {dv.opaque}", c.loc))
            continue
        keys = set(dv.items)
        missing = [n for n in names if n not in keys]
        extra = [k for k in keys if k not in names] if not kwarg else []
        if vararg:
            out.append(unres("R3a", c.qualname, "config==init", "__init__ takes *args", c.loc))
            continue
        if missing:
            out.append(
                viol("R3a", c.qualname, "config==init", f"__init__ parameter(s) {missing} missing from config: __copy__ = cls(**config) (used by Parameter.ref for every derived circuit) silently resets them to their defaults", c.loc)
            )
        if extra:
            out.append(viol("R3a", c.qualname, "config==init", f"config key(s) {extra} are not __init__ parameters: cls(**config) raises TypeError", c.loc))
        if not missing and not extra:
            out.append(ok("R3a", c.qualname, "config==init", f"config keys == __init__ parameters {sorted(keys)}", c.loc))
        _roundtrip(ctx, c, "config", "R3a", out)
    return out


# ------------------------------------------------------------------------------------------ R3b
def r3b(ctx: Ctx) -> list[Ob]:
    out: list[Ob] = []
    base = ctx.repo.cls(SYM_LAYER)
    for c in ctx.repo.subclasses(base):
        if not ctx.repo.is_concrete(c):
            continue
        names, vararg, kwarg = _init_names(ctx, c)
        cfg = ctx.cf.dict_property(c, "config")
        prm = ctx.cf.dict_property(c, "params")
        keys = set(cfg.items) | set(prm.items)
        extra = [k for k in keys if k not in names]
        if extra and not kwarg:
            out.append(viol("R3b", c.qualname, "keys<=init", f"config/params key(s) {extra} are not __init__ parameters: copyref() raises TypeError", c.loc))
        else:
            out.append(ok("R3b", c.qualname, "keys<=init", f"{sorted(keys)} are __init__ parameters", c.loc))
        key_storage: set[str] = set()
        for dv in (cfg, prm):
            for k, (v, _) in dv.items.items():
                key_storage |= ctx.cf.storage_of_expr(c, v)
        for n in names:
            if n in keys:
                continue
            st = ctx.cf.init_param_storage(c, n)
            if not st:
                out.append(note("R3b", c.qualname, f"carried:{n}", "parameter not stored on the instance", c.loc))
            elif st <= key_storage:
                out.append(ok("R3b", c.qualname, f"carried:{n}", f"'{n}' only feeds attributes carried by other keys ({sorted(st)})", c.loc))
            else:
                out.append(viol("R3b", c.qualname, f"carried:{n}", f"__init__ parameter '{n}' is stored in {sorted(st - key_storage)} but is neither a config nor a params key: copyref() drops it", c.loc))
        _roundtrip(ctx, c, "config", "R3b", out)
        _roundtrip(ctx, c, "params", "R3b", out)
    return out


# ------------------------------------------------------------------------------------------ R3c
def _static_issubclass_branch(ctx: Ctx, stmts: list[ast.stmt], var: str, c: ClassInfo, m) -> list[ast.stmt]:
    """Flatten *stmts*, statically resolving ``if [not] issubclass(var, X)`` for class *c*."""
    res: list[ast.stmt] = []
    for s in stmts:
        if isinstance(s, ast.If):
            t = s.test
            neg = False
            if isinstance(t, ast.UnaryOp) and isinstance(t.op, ast.Not):
                neg, t = True, t.operand
            if isinstance(t, ast.Call) and dotted(t.func) == "issubclass" and len(t.args) == 2 and unparse(t.args[0]) == var:
                k = ctx.repo.get_class(m, t.args[1])
                if k is not None:
                    val = ctx.repo.is_subclass(c, k) != neg
                    res.extend(_static_issubclass_branch(ctx, s.body if val else s.orelse, var, c, m))
                    continue
            res.append(s)
        else:
            res.append(s)
    return res


def fold_layer_kwargs(ctx: Ctx, c: ClassInfo) -> tuple[set[str], set[str]]:
    """(literal kwargs keys, dynamic sources) that ``_fold_layers_group`` passes to
    ``fold_layer_cls(semiring=.., **kwargs)`` for a layer class *c*."""
    f = ctx.repo.func(f"{COMPILER}._fold_layers_group")
    stmts = _static_issubclass_branch(ctx, list(f.node.body), "fold_layer_cls", c, f.module)
    keys: set[str] = set()
    dyn: set[str] = set()
    for s in stmts:
        for n in ast.walk(s):
            if isinstance(n, ast.Assign):
                for t in n.targets:
                    if isinstance(t, ast.Subscript) and unparse(t.value) == "kwargs" and isinstance(t.slice, ast.Constant):
                        keys.add(t.slice.value)
                    if isinstance(t, ast.Name) and t.id == "kwargs" and "config" in unparse(n.value):
                        dyn.add("config")
            if isinstance(n, ast.AnnAssign) and isinstance(n.target, ast.Name) and n.target.id == "kwargs" and n.value is not None and "config" in unparse(n.value):
                dyn.add("config")
            if isinstance(n, ast.Call) and unparse(n.func) == "kwargs.update":
                txt = unparse(n)
                if "layer_params" in txt:
                    dyn.add("params")
                if "layer_submodules" in txt:
                    dyn.add("sub_modules")
            if isinstance(n, ast.Return) and isinstance(n.value, ast.Call) and unparse(n.value.func) == "fold_layer_cls":
                for kw in n.value.keywords:
                    if kw.arg:
                        keys.add(kw.arg)
    return keys, dyn


def r3c(ctx: Ctx) -> list[Ob]:
    out: list[Ob] = []
    tl = ctx.repo.cls(T_LAYER)
    for c in ctx.repo.subclasses(tl):
        if not ctx.repo.is_concrete(c):
            continue
        lit, dyn = fold_layer_kwargs(ctx, c)
        if dyn != {"config", "params", "sub_modules"}:
            raise AnalysisError(f"_fold_layers_group: kwargs sources not recognised ({sorted(dyn)})")
        provided = set(lit)
        for prop in ("config", "params", "sub_modules"):
            provided |= set(ctx.cf.dict_property(c, prop).items)
        init = ctx.repo.lookup(c, "__init__")
        if init is None:
            continue
        required = [p.name for p in init.call_params if p.required]
        names, vararg, kwarg = _init_names(ctx, c)
        # required parameters: for conditional params (probs/logits) take the per-path key sets
        missing = [r for r in required if r not in provided]
        unknown = [k for k in provided if k not in names] if not kwarg else []
        if missing:
            out.append(viol("R3c", c.qualname, "fold-kwargs", f"folding re-instantiates {c.name}(semiring=.., **kwargs) without required argument(s) {missing} (provided: {sorted(provided)})", c.loc))
        if unknown:
            out.append(viol("R3c", c.qualname, "fold-kwargs", f"folding passes unknown keyword(s) {unknown} to {c.name}.__init__ (TypeError whenever such a layer is folded)", c.loc))
        if not missing and not unknown:
            out.append(ok("R3c", c.qualname, "fold-kwargs", f"fold kwargs {sorted(provided)} fit __init__", c.loc))
    # parameter operators:  fold_node_cls(**group[0].config, num_folds=len(group))
    f = ctx.repo.func(f"{COMPILER}._fold_parameter_nodes_group")
    pop = ctx.repo.cls(T_POP)
    generic = [
        n for n in walk_no_nested(f.node)
        if isinstance(n, ast.Return) and isinstance(n.value, ast.Call) and unparse(n.value.func) == "fold_node_cls"
    ]
    if len(generic) != 1:
        raise AnalysisError("_fold_parameter_nodes_group: generic re-instantiation `fold_node_cls(**config, num_folds=..)` not found")
    gcall = generic[0].value
    lit = {k.arg for k in gcall.keywords if k.arg}
    has_cfg = any(k.arg is None and "config" in unparse(k.value) for k in gcall.keywords)
    if not has_cfg:
        raise AnalysisError("_fold_parameter_nodes_group: **config not passed")
    for c in ctx.repo.subclasses(pop):
        if not ctx.repo.is_concrete(c):
            continue
        provided = set(lit) | set(ctx.cf.dict_property(c, "config").items)
        init = ctx.repo.lookup(c, "__init__")
        if init is None:
            continue
        names, vararg, kwarg = _init_names(ctx, c)
        required = [p.name for p in init.call_params if p.required]
        missing = [r for r in required if r not in provided]
        unknown = [k for k in provided if k not in names] if not kwarg else []
        if vararg and not required:
            out.append(unres("R3c", c.qualname, "fold-kwargs", "__init__ takes *in_shapes but folding passes keywords only", c.loc))
            continue
        if missing:
            out.append(viol("R3c", c.qualname, "fold-kwargs", f"folding re-instantiates {c.name}(**config, num_folds=..) without required argument(s) {missing}", c.loc))
        if unknown:
            out.append(viol("R3c", c.qualname, "fold-kwargs", f"folding passes unknown keyword(s) {unknown} to {c.name}.__init__", c.loc))
        if not missing and not unknown:
            out.append(ok("R3c", c.qualname, "fold-kwargs", f"fold kwargs {sorted(provided)} fit __init__", c.loc))
    return out


# ------------------------------------------------------------------------------------------ R3f
HYPER_EXEMPT = {"num_folds", "semiring", "scope_idx"}


def r3f(ctx: Ctx, which: str = "both") -> list[Ob]:
    """Every stored __init__ hyper-parameter of a torch module is a config key (the folder
    rebuilds every module -- singleton groups included -- from config)."""
    out: list[Ob] = []
    bases = []
    if which in ("both", "params"):
        bases.append(ctx.repo.cls(T_POP))
    if which in ("both", "layers"):
        bases.append(ctx.repo.cls(T_LAYER))
    for base in bases:
        for c in ctx.repo.subclasses(base):
            if not ctx.repo.is_concrete(c):
                continue
            names, vararg, kwarg = _init_names(ctx, c)
            cfg = ctx.cf.dict_property(c, "config")
            carried = set(cfg.items) | set(ctx.cf.dict_property(c, "params").items) | set(ctx.cf.dict_property(c, "sub_modules").items)
            key_storage: set[str] = set()
            for k, (v, _) in cfg.items.items():
                key_storage |= ctx.cf.storage_of_expr(c, v)
            for n in names:
                if n in HYPER_EXEMPT:
                    continue
                if n in carried:
                    out.append(ok("R3f", c.qualname, f"hyper:{n}", "is a config/params/sub_modules key", c.loc))
                    continue
                st = ctx.cf.init_param_storage(c, n)
                if st and not st <= key_storage:
                    out.append(
                        viol(
                            "R3f",
                            c.qualname,
                            f"hyper:{n}",
                            f"hyper-parameter '{n}' is stored in {sorted(st)} but is not a config key: folding rebuilds the module from config "
                            f"and silently resets '{n}' to its default",
                            c.loc,
                        )
                    )
                elif st:
                    out.append(ok("R3f", c.qualname, f"hyper:{n}", f"'{n}' only feeds attributes carried by config ({sorted(st)})", c.loc))
            _roundtrip(ctx, c, "config", "R3f", out)
            if base.qualname == T_LAYER:
                _roundtrip(ctx, c, "params", "R3f", out)
                _roundtrip(ctx, c, "sub_modules", "R3f", out)
    return out


# ------------------------------------------------------------------------------------------ R3d
def _returns_tuple_elts(f) -> list[ast.AST] | None:
    rets = [r for r in walk_no_nested(f.node) if isinstance(r, ast.Return) and r.value is not None]
    if len(rets) != 1 or not isinstance(rets[0].value, ast.Tuple):
        return None
    return list(rets[0].value.elts)


def r3d(ctx: Ctx) -> list[Ob]:
    out: list[Ob] = []
    # (a) layer fold settings contain config.items(), parameter shapes (+ num_variables)
    for q, need_nv in ((T_INNER, False), (T_INPUT, True)):
        c = ctx.repo.cls(q)
        f = c.methods.get("fold_settings")
        if f is None:
            raise AnalysisError(f"vanished anchor: {q}.fold_settings")
        ld = LocalDefs(f.node)
        elts = _returns_tuple_elts(f)
        if elts is None:
            out.append(unres("R3d", f.qualname, "layer-settings", "return value is not a tuple display", f.loc))
            continue
        has_cfg = any(isinstance(e, ast.Starred) and unparse(e.value) == "self.config.items()" for e in elts)
        has_shapes = False
        for e in elts:
            if isinstance(e, ast.Starred):
                for x in ld.expand(e.value):
                    if isinstance(x, (ast.ListComp, ast.GeneratorExp)) and "self.params.items()" in unparse(x.generators[0].iter) and ".shape" in unparse(x.elt):
                        has_shapes = True
        has_nv = any(unparse(e) == "self.num_variables" for e in elts)
        for label, good, why in (
            ("config", has_cfg, "layers with different hyper-parameters would be folded together and rebuilt from the first one's config"),
            ("param-shapes", has_shapes, "layers whose parameters have different shapes would be folded together"),
        ) + ((("num_variables", has_nv, "input layers over a different number of variables would be folded together"),) if need_nv else ()):
            if good:
                out.append(ok("R3d", f.qualname, f"settings:{label}", "part of the fold group key", f.loc))
            else:
                out.append(viol("R3d", f.qualname, f"settings:{label}", f"fold_settings no longer contains {label}: {why}", f.loc))
    # (b) no concrete layer narrows fold_settings
    tl = ctx.repo.cls(T_LAYER)
    for c in ctx.repo.subclasses(tl):
        f = c.methods.get("fold_settings")
        if f is not None and c.qualname not in (T_INNER, T_INPUT) and not f.is_abstract:
            if "super().fold_settings" in unparse(f.node):
                out.append(ok("R3d", f.qualname, "override", "extends the inherited fold settings", f.loc))
            else:
                out.append(unres("R3d", f.qualname, "override", "fold_settings overridden without extending the inherited one: not analysed", f.loc))
    # (c) recursive gathering of sub-module settings uses the function's own parameter
    g = ctx.repo.func("cirkit.backend.torch.graph.folding.group_foldable_modules")
    inner = [n for n in ast.walk(g.node) if isinstance(n, ast.FunctionDef) and n is not g.node]
    gathered = False
    for fn in inner:
        args = [a.arg for a in fn.args.args]
        if not args:
            continue
        p = args[0]
        txt_nodes = list(ast.walk(fn))
        reads_fs = [n for n in txt_nodes if isinstance(n, ast.Attribute) and n.attr == "fold_settings"]
        reads_type = [n for n in txt_nodes if isinstance(n, ast.Call) and dotted(n.func) == "type" and n.args]
        reads_sub = [n for n in txt_nodes if isinstance(n, ast.Attribute) and n.attr == "sub_modules"]
        recurses = any(isinstance(n, ast.Call) and dotted(n.func) == fn.name for n in txt_nodes)
        if not reads_fs:
            continue
        gathered = True
        loc = f"{g.module.relpath}:{fn.lineno}"
        for label, nodes, getter in (
            ("fold_settings", reads_fs, lambda n: unparse(n.value)),
            ("type", reads_type, lambda n: unparse(n.args[0])),
            ("sub_modules", reads_sub, lambda n: unparse(n.value)),
        ):
            for n in nodes:
                who = getter(n)
                if who == p:
                    out.append(ok("R3d", g.qualname, f"gather:{label}", f"{fn.name} reads {label} of its own argument '{p}'", loc))
                else:
                    out.append(
                        viol(
                            "R3d",
                            g.qualname,
                            f"gather:{label}",
                            f"{fn.name}({p}) reads {label} of the enclosing variable '{who}' instead of its argument '{p}': the settings of "
                            "sub-modules (e.g. the layer wrapped by an evidence layer) are not part of the fold group key, so evidence layers "
                            "wrapping layers with different hyper-parameters are folded together",
                            f"{g.module.relpath}:{n.lineno}",
                        )
                    )
        if recurses and reads_sub:
            out.append(ok("R3d", g.qualname, "gather:recursive", "sub-module settings gathered recursively", loc))
        else:
            out.append(viol("R3d", g.qualname, "gather:recursive", "fold settings of sub-modules are not gathered", loc))
    if not gathered:
        # no generic recursion: then every class that has sub-modules must put the sub-module's own
        # settings into its key itself (the folder rebuilds the sub-module from the first one's config)
        n_sub = 0
        for c in ctx.repo.subclasses(tl):
            if not ctx.repo.is_concrete(c):
                continue
            subs = ctx.cf.dict_property(c, "sub_modules")
            names = [is_self_attr(v[0]) if isinstance(v, tuple) else is_self_attr(v) for v in subs.items.values()] if subs.items else []
            names = [n for n in names if n]
            if not names:
                continue
            n_sub += 1
            fs = ctx.repo.lookup(c, "fold_settings")
            txt = unparse(fs.node) if fs is not None else ""
            for a in names:
                full = f"self.{a}.fold_settings" in txt
                cfg = f"self.{a}.config" in txt
                if full or cfg:
                    out.append(ok("R3d", c.qualname, f"sub-settings:{a}", "the class keys on the sub-module's own settings", fs.loc if fs else c.loc))
                else:
                    out.append(viol("R3d", c.qualname, f"sub-settings:{a}", f"neither group_foldable_modules gathers the settings of sub-modules nor does {c.name}.fold_settings contain self.{a}.fold_settings / self.{a}.config: layers wrapping sub-modules with different hyper-parameters are folded together and the folder rebuilds the sub-module from the first one's config", fs.loc if fs else c.loc))
        if n_sub == 0:
            out.append(unres("R3d", g.qualname, "gather", "no nested settings-gathering function found and no class with sub-modules", g.loc))
    # (d) parameter ops: fold_settings == config.items(), no subclass narrows it
    pn = ctx.repo.cls(T_PNODE)
    f = pn.methods.get("fold_settings")
    if f is None:
        raise AnalysisError(f"vanished anchor: {T_PNODE}.fold_settings")
    elts = _returns_tuple_elts(f)
    if elts is not None and any(isinstance(e, ast.Starred) and unparse(e.value) == "self.config.items()" for e in elts):
        out.append(ok("R3d", f.qualname, "settings:config", "parameter nodes are grouped on config.items()", f.loc))
    else:
        out.append(viol("R3d", f.qualname, "settings:config", "parameter-node fold_settings no longer contains config.items(): nodes with different hyper-parameters (axis, order, shapes) fold together", f.loc))
    for c in ctx.repo.subclasses(pn):
        fo = c.methods.get("fold_settings")
        if fo is None:
            continue
        if c.qualname == T_TENSOR:
            # attributes copied from group[0] by the folder must be part of the key
            fg = ctx.repo.func(f"{COMPILER}._fold_parameter_nodes_group")
            ldg = LocalDefs(fg.node)
            copied: set[str] = set()
            for n in walk_no_nested(fg.node):
                if isinstance(n, ast.Attribute) and isinstance(n.value, ast.Name) and n.value.id == "node_tensor":
                    copied.add(n.attr)
            key_st = ctx.cf.storage_of_member(c, "fold_settings")
            for a in sorted(copied):
                st = ctx.cf.storage_of_member(c, a)
                if st & key_st:
                    out.append(ok("R3d", fo.qualname, f"tensor-key:{a}", f"group[0].{a} copied by the folder is part of fold_settings", fo.loc))
                else:
                    out.append(viol("R3d", fo.qualname, f"tensor-key:{a}", f"the folder copies '{a}' from the first tensor of a group but fold_settings does not key on it: tensors differing in '{a}' are folded together and take the first one's value", fo.loc))
            if not copied:
                out.append(unres("R3d", fo.qualname, "tensor-key", "no attribute read from node_tensor found in the folder", fo.loc))
        else:
            out.append(unres("R3d", fo.qualname, "override", "parameter node overrides fold_settings: not analysed", fo.loc))
    return out


# ------------------------------------------------------------------------------------------ R3e
def r3e(ctx: Ctx) -> list[Ob]:
    out: list[Ob] = []
    f = ctx.repo.func(f"{COMPILER}._fold_parameter_nodes_group")
    ld = LocalDefs(f.node)
    found = False
    for n in walk_no_nested(f.node):
        if not isinstance(n, ast.For):
            continue
        # for i, p in enumerate(group_tensors):
        it = n.iter
        if not (isinstance(it, ast.Call) and dotted(it.func) == "enumerate" and isinstance(n.target, ast.Tuple) and len(n.target.elts) == 2):
            continue
        iname, pname = (unparse(n.target.elts[0]), unparse(n.target.elts[1]))
        calls = [c for s in n.body for c in ast.walk(s) if isinstance(c, ast.Call) and (dotted(c.func) or "").endswith("register_compiled_parameter")]
        if not calls:
            continue
        found = True
        call = calls[0]
        site = f"{f.module.relpath}:{call.lineno}"
        kw = {k.arg: k.value for k in call.keywords if k.arg}
        # sp <- retrieve_symbolic_parameter(p)
        body_ld = {}
        for s in n.body:
            if isinstance(s, ast.Assign) and len(s.targets) == 1 and isinstance(s.targets[0], ast.Name):
                body_ld[s.targets[0].id] = s.value
        sp = call.args[0] if call.args else None
        sp_src = body_ld.get(unparse(sp), sp) if sp is not None else None
        if sp_src is not None and isinstance(sp_src, ast.Call) and (dotted(sp_src.func) or "").endswith("retrieve_symbolic_parameter") and sp_src.args and unparse(sp_src.args[0]) == pname:
            out.append(ok("R3e", f.qualname, "symbolic-of-member", f"symbolic parameter looked up for each group member '{pname}'", site))
        else:
            out.append(viol("R3e", f.qualname, "symbolic-of-member", f"re-registration does not use retrieve_symbolic_parameter({pname}) of the group member", site))
        if "fold_idx" in kw and unparse(kw["fold_idx"]) == iname:
            out.append(ok("R3e", f.qualname, "fold_idx=enumeration-index", f"slice index is the position '{iname}' in the group", site))
        else:
            out.append(viol("R3e", f.qualname, "fold_idx=enumeration-index", f"fold_idx is {unparse(kw.get('fold_idx'))}, not the enumeration index '{iname}': symbolic parameters are mapped to the wrong slice of the folded tensor", site))
        # the registered node is the folded node that is returned
        tgt = call.args[1] if len(call.args) > 1 else None
        rets_in_branch = [r for r in walk_no_nested(f.node) if isinstance(r, ast.Return) and r.value is not None and tgt is not None and unparse(r.value) == unparse(tgt)]
        if tgt is not None and rets_in_branch:
            out.append(ok("R3e", f.qualname, "registers-returned-node", f"registers '{unparse(tgt)}', the node returned for the group", site))
        else:
            out.append(viol("R3e", f.qualname, "registers-returned-node", "the registered node is not the folded node returned for the group", site))
        # the loop ranges over the same sequence the initialisers are stacked from
        init_src = [c for c in ast.walk(f.node) if isinstance(c, ast.keyword) and c.arg == "initializers"]
        if init_src:
            seq = unparse(it.args[0]) if it.args else "?"
            if seq in unparse(init_src[0].value):
                out.append(ok("R3e", f.qualname, "same-order-as-initializers", f"slices and per-slice initialisers both follow '{seq}'", site))
            else:
                out.append(viol("R3e", f.qualname, "same-order-as-initializers", "slice registration and stacked initialisers follow different sequences", site))
    if not found:
        out.append(viol("R3e", f.qualname, "re-registration", "folding tensor parameters no longer re-registers each symbolic parameter with its slice index: references from derived circuits point to stale tensors", f.loc))
    # register_compiled_parameter writes _compiled_parameters[sp] on both branches
    g = ctx.repo.func(f"{COMPILER}.TorchCompilerState.register_compiled_parameter")
    writes = []
    for n in walk_no_nested(g.node):
        if isinstance(n, ast.Assign):
            for t in n.targets:
                if isinstance(t, ast.Subscript) and unparse(t.value) == "self._compiled_parameters":
                    writes.append((t, n.value))
    ifs = [n for n in walk_no_nested(g.node) if isinstance(n, ast.If)]
    ok_both = len(writes) >= 2 or (len(writes) == 1 and not ifs)
    if ok_both and all(unparse(t.slice) == "sp" for t, _ in writes):
        vals = [unparse(v) for _, v in writes]
        if any("fold_idx" in v for v in vals) and all(v.startswith("(cp") for v in vals):
            out.append(ok("R3e", g.qualname, "writes-map", f"_compiled_parameters[sp] written on every branch: {vals}", g.loc))
        else:
            out.append(viol("R3e", g.qualname, "writes-map", f"_compiled_parameters[sp] is written with {vals}: the slice index is lost", g.loc))
    else:
        out.append(viol("R3e", g.qualname, "writes-map", "a branch of register_compiled_parameter does not record (compiled tensor, slice index)", g.loc))
    # retrieve_compiled_parameter reads the same map
    h = ctx.repo.func(f"{COMPILER}.TorchCompilerState.retrieve_compiled_parameter")
    if "self._compiled_parameters[p]" in unparse(h.node):
        out.append(ok("R3e", h.qualname, "reads-map", "reads the map written by register_compiled_parameter", h.loc))
    else:
        out.append(viol("R3e", h.qualname, "reads-map", "does not read _compiled_parameters[p]", h.loc))
    return out


# ----------------------------------------------------------------------------- R3g: index-free shortcuts
FOLDING = "cirkit.backend.torch.graph.folding"


def _is_index_free(v: ast.AST) -> bool:
    """`()`, `(None,)`, `(slice(None), None)` ... : an address-book 'index' that gathers nothing"""
    if isinstance(v, ast.Tuple):
        return all(
            (isinstance(e, ast.Constant) and e.value is None)
            or (isinstance(e, ast.Call) and isinstance(e.func, ast.Name) and e.func.id == "slice")
            for e in v.elts
        )
    return False


def r3g(ctx: Ctx) -> list[Ob]:
    """R3g: the address-book builders may replace a gather index by an index-free form (no indexing,
    an unsqueeze) only when the cumulative index equals the *whole* fold range of its source(s): the
    bound of the ``range`` it is compared with derives from ``num_folds`` (the sources' fold counts),
    not from the length of the request.  A prefix ``[0..k)`` of a module with more than k folds
    compares equal to ``range(k)`` and would otherwise hand the consumer all folds."""
    out: list[Ob] = []
    for fname in ("build_address_book_entry", "build_address_book_stacked_entry"):
        f = ctx.repo.func(f"{FOLDING}.{fname}")
        ld = LocalDefs(f.node)
        # index-free values that are assigned / put into a returned entry
        shortcuts = [n for n in ast.walk(f.node) if _is_index_free(n) and isinstance(getattr(n, "ctx", None), ast.Load)]
        if not shortcuts:
            out.append(ok("R3g", f.qualname, "shortcut", "no index-free shortcut in this builder", f.loc, nontrivial=False))
            continue
        ranges: list[tuple[ast.AST, ast.AST]] = []  # (bound, the other side of the comparison)
        for n in ast.walk(f.node):
            if isinstance(n, ast.Compare) and len(n.ops) == 1 and isinstance(n.ops[0], ast.Eq):
                for side, other in ((n.left, n.comparators[0]), (n.comparators[0], n.left)):
                    e = side
                    if isinstance(e, ast.Call) and isinstance(e.func, ast.Name) and e.func.id == "list" and len(e.args) == 1:
                        e = e.args[0]
                    if isinstance(e, ast.Call) and isinstance(e.func, ast.Name) and e.func.id == "range" and len(e.args) == 1:
                        ranges.append((e.args[0], other))
        if not ranges:
            out.append(unres("R3g", f.qualname, "shortcut", "index-free shortcuts without a `== list(range(n))` comparison (another formulation): no verdict", f.loc))
        for i, (bound, other) in enumerate(ranges):
            request = {x.id for x in ast.walk(other) if isinstance(x, ast.Name) and isinstance(x.ctx, ast.Load)}
            request -= {t.id for c in ast.walk(other) if isinstance(c, ast.comprehension) for t in ast.walk(c.target) if isinstance(t, ast.Name)}
            # names the bound derives from, following local definitions but not *through* the compared
            # index: `n = len(idx); range(n)` derives from the request, whatever the index derives from
            names: set[str] = set()
            direct: set[str] = set()
            seen_n: set[str] = set()
            comp_targets = {t.id for c in ast.walk(f.node) if isinstance(c, ast.comprehension) for t in ast.walk(c.target) if isinstance(t, ast.Name)}
            work_n = [x.id for x in ast.walk(bound) if isinstance(x, ast.Name)]
            while work_n:
                nm = work_n.pop()
                if nm in seen_n:
                    continue
                seen_n.add(nm)
                names.add(nm)
                if nm in request:
                    direct.add(nm)
                    continue
                if nm in comp_targets:
                    continue  # comprehension-local: its sources are walked with the comprehension itself
                for d in ld.defs.get(nm, []):
                    if isinstance(d, ast.AST):
                        work_n += [x.id for x in ast.walk(d) if isinstance(x, ast.Name)]
            inst = f"full-range#{i}:{unparse(bound)[:40]}"
            if direct & request:
                out.append(viol("R3g", f.qualname, inst, f"the index-free shortcut compares the cumulative index with a range computed from the index itself (`{unparse(bound)[:60]}`): any prefix of a larger module compares equal", f.loc))
            elif "num_folds" in names:
                out.append(ok("R3g", f.qualname, inst, "the compared range is bounded by the sources' fold counts (num_folds)", f.loc))
            else:
                out.append(viol("R3g", f.qualname, inst, f"the index-free shortcut compares the cumulative index with range({unparse(bound)}), which does not derive from num_folds: selecting a prefix of a module with more folds is mistaken for 'all of it'", f.loc))
            # (b) the compared index keeps its order: a gather is the identity only for 0, 1, .., n-1 *in this order*
            lossy = _order_destroying(ld, other)
            inst_o = f"in-order#{i}:{unparse(bound)[:40]}"
            if lossy:
                out.append(viol("R3g", f.qualname, inst_o, f"the index-free shortcut compares `{unparse(other)[:70]}` with the range after passing the cumulative index through {lossy}: any permutation of the inputs compares equal, and an order-sensitive module (Kronecker / Tucker product, n-ary sum) then receives its inputs in folding order instead of the declared order", f.loc))
            else:
                out.append(ok("R3g", f.qualname, inst_o, "the index is compared element by element, in order", f.loc))
        # (c) every index-free value is control-dependent on an element-wise comparison of the index
        par: dict[int, ast.AST] = {}
        for n in ast.walk(f.node):
            for c in ast.iter_child_nodes(n):
                par[id(c)] = n
        idx_names = {
            x.id
            for n in ast.walk(f.node)
            if isinstance(n, ast.Call) and (dotted(n.func) or "").endswith("tensor") and n.args
            for x in ast.walk(n.args[0])
            if isinstance(x, ast.Name)
        }
        range_cmps = set()
        for n in ast.walk(f.node):
            if isinstance(n, ast.Compare) and len(n.ops) == 1 and isinstance(n.ops[0], ast.Eq):
                if any(_range_form(_hoist(ld, x)) for x in (n.left, n.comparators[0])):
                    range_cmps.add(id(n))
        for k, sc in enumerate(shortcuts):
            tests: list[ast.AST] = []
            cur: ast.AST | None = sc
            while cur is not None and cur is not f.node:
                up = par.get(id(cur))
                if isinstance(up, ast.If) and any(cur is b for b in up.body):
                    tests.append(up.test)
                if isinstance(up, ast.IfExp) and cur is up.body:
                    tests.append(up.test)
                # the else branch of `if not X:` is where X holds
                if isinstance(up, ast.If) and any(cur is b for b in up.orelse) and isinstance(up.test, ast.UnaryOp) and isinstance(up.test.op, ast.Not):
                    tests.append(up.test.operand)
                if isinstance(up, ast.IfExp) and cur is up.orelse and isinstance(up.test, ast.UnaryOp) and isinstance(up.test.op, ast.Not):
                    tests.append(up.test.operand)
                cur = up
            eqs = [n for t in tests for n in ast.walk(t) if isinstance(n, ast.Compare) and any(isinstance(o, ast.Eq) for o in n.ops)]
            elementwise = [n for n in eqs if any(_reads_elements(ld, x, idx_names) for x in [n.left, *n.comparators])]
            inst_g = f"guarded#{k}:{unparse(sc)}"
            loc = f"{f.module.relpath}:{sc.lineno}"
            if any(id(n) in range_cmps for n in elementwise):
                out.append(ok("R3g", f.qualname, inst_g, "returned only under a comparison of the index with a range", loc))
            elif not elementwise:
                out.append(viol("R3g", f.qualname, inst_g, f"the index-free form {unparse(sc)} is chosen without comparing the elements of the cumulative index with anything (only lengths / counts are tested): an index of the right length that selects other folds, or the same folds in another order, is replaced by 'take everything in storage order'", loc))
            elif not any(_reads_elements(ld, x, idx_names, whole=True) for n in elementwise for x in [n.left, *n.comparators]):
                out.append(viol("R3g", f.qualname, inst_g, f"the form {unparse(sc)} is chosen after inspecting only fixed positions of the cumulative index (`{unparse(elementwise[0])[:70]}`): the endpoints and the length of [0, 2, 1, 3] or [0, 1, 1, 3] are those of the contiguous range 0..3, so a permuted or repeating index is replaced by a plain slice of the storage", loc))
            else:
                out.append(unres("R3g", f.qualname, inst_g, "guarded by an element-wise comparison this rule has no model of: no verdict", loc))
    return out


def _reads_elements(ld: LocalDefs, e: ast.AST, idx_names: set[str], whole: bool = False) -> bool:
    """does the expression depend on the *elements* of the cumulative index (not only on lengths)?
    whole=True: ... on all of them (a read of a fixed position, ``idx[0]`` / ``idx[-1]``, does not count)"""

    def visit(n: ast.AST, comp_targets: frozenset[str]) -> bool:
        if isinstance(n, ast.Call) and isinstance(n.func, ast.Name) and n.func.id == "len":
            return False
        if whole and isinstance(n, ast.Subscript) and isinstance(n.value, ast.Name) and n.value.id in idx_names:
            sl = n.slice
            if isinstance(sl, ast.UnaryOp) and isinstance(sl.op, ast.USub):
                sl = sl.operand
            if isinstance(sl, ast.Constant) and isinstance(sl.value, int):
                return False
        if isinstance(n, (ast.ListComp, ast.GeneratorExp, ast.SetComp)):
            # elements are read if the comprehension's *element* uses them; iterating only to count does not
            bound = set(comp_targets)
            elem_vars: set[str] = set()
            for g in n.generators:
                src_reads = visit(g.iter, frozenset(bound)) or any(isinstance(x, ast.Name) and (x.id in idx_names or x.id in elem_vars) for x in ast.walk(g.iter))
                if src_reads:
                    elem_vars |= {t.id for t in ast.walk(g.target) if isinstance(t, ast.Name)}
            return any(isinstance(x, ast.Name) and x.id in elem_vars for x in _walk_skip_len(n.elt))
        if isinstance(n, ast.Name):
            if n.id in idx_names:
                return True
            return False
        return any(visit(c, comp_targets) for c in ast.iter_child_nodes(n))

    return visit(e, frozenset()) or visit(_hoist(ld, e), frozenset())


def _walk_skip_len(n: ast.AST):
    if isinstance(n, ast.Call) and isinstance(n.func, ast.Name) and n.func.id == "len":
        return
    yield n
    for c in ast.iter_child_nodes(n):
        yield from _walk_skip_len(c)


def _range_form(e: ast.AST) -> bool:
    """``range(n)`` / ``list(range(n))`` / ``[i for i in range(n)]`` / ``[[i] for i in range(n)]``"""
    if isinstance(e, ast.Call) and isinstance(e.func, ast.Name) and e.func.id in ("list", "tuple") and len(e.args) == 1:
        e = e.args[0]
    if isinstance(e, ast.Call) and isinstance(e.func, ast.Name) and e.func.id == "range":
        return True
    if isinstance(e, (ast.ListComp, ast.GeneratorExp)) and len(e.generators) == 1 and not e.generators[0].ifs:
        g = e.generators[0]
        it = g.iter
        if isinstance(it, ast.Call) and isinstance(it.func, ast.Name) and it.func.id == "range" and isinstance(g.target, ast.Name):
            elt = e.elt
            if isinstance(elt, ast.Name) and elt.id == g.target.id:
                return True
            if isinstance(elt, (ast.List, ast.Tuple)) and len(elt.elts) == 1 and isinstance(elt.elts[0], ast.Name) and elt.elts[0].id == g.target.id:
                return True
    return False


ORDER_DESTROYING = {"sorted", "set", "frozenset", "Counter", "reversed", "unique", "sort"}


def _hoist(ld: LocalDefs, e: ast.AST, depth: int = 4) -> ast.AST:
    """follow a plain local that was assigned exactly once (``flat = [..]; if flat == ..``); loop and
    comprehension variables are not followed (LocalDefs is flow-insensitive about them)"""
    while depth and isinstance(e, ast.Name):
        ds = ld.defs.get(e.id, [])
        if len(ds) != 1 or e.id in ld.params:
            break
        d = ds[0]
        if isinstance(d, ast.Subscript) and isinstance(d.slice, ast.Name) and d.slice.id == "*":
            break
        e = d
        depth -= 1
    return e


def _order_destroying(ld: LocalDefs, e: ast.AST) -> str | None:
    for x in [_hoist(ld, e)]:
        for n in ast.walk(x):
            if isinstance(n, ast.Call):
                name = (dotted(n.func) or "").split(".")[-1]
                if name in ORDER_DESTROYING:
                    return f"{name}(..)"
            if isinstance(n, (ast.Set, ast.SetComp)):
                return "a set"
    return None


# ------------------------------------------------------------------------------------------ R3h
def r3h(ctx: Ctx) -> list[Ob]:
    """R3h -- a pointer that survives folding points at a tensor that survives folding.

    ``compile_reference_parameter`` may produce a pointer to a tensor of the *same* circuit (a layer
    whose parameter is ``other.probs.ref()``).  Folding replaces that tensor by a slice of a folded
    one and records the replacement in the registry (R3e); the pointer must follow: the target of a
    folded pointer has to come out of a lookup keyed by the pre-fold target (the registry's
    ``retrieve_compiled_parameter`` or any mapping / call taking the ``deref()`` value), either in the
    function that folds pointer groups or in a pass over the folded circuit.  A target taken from
    ``deref()`` alone is the unfolded tensor, which is no part of the folded circuit and is never
    initialised."""
    out: list[Ob] = []
    f = ctx.repo.func(f"{COMPILER}._fold_parameter_nodes_group")
    par: dict[int, ast.AST] = {}
    for n in ast.walk(f.node):
        for ch in ast.iter_child_nodes(n):
            par[id(ch)] = n
    derefs = [n for n in walk_no_nested(f.node) if isinstance(n, ast.Call) and isinstance(n.func, ast.Attribute) and n.func.attr == "deref" and not n.args]
    if not derefs:
        return [unres("R3h", f.qualname, "stale-pointer", "the pointer branch no longer calls deref(): no verdict", f.loc)]
    ld = LocalDefs(f.node)
    names = {k for k, ds in ld.defs.items() for d in ds if any(x is d or x in ast.walk(d) for x in derefs)}
    looked_up = False
    for n in walk_no_nested(f.node):
        # X[<deref value>] / g(<deref value>) other than the pointer constructor itself
        if isinstance(n, ast.Subscript) and any(isinstance(x, ast.Name) and x.id in names for x in ast.walk(n.slice)):
            looked_up = True
        if isinstance(n, ast.Call) and (dotted(n.func) or "").split(".")[-1] not in ("TorchPointerParameter", "isinstance", "len", "type"):
            for a in list(n.args) + [k.value for k in n.keywords]:
                if (isinstance(a, ast.Name) and a.id in names) or any(a is d for d in derefs):
                    looked_up = True
    # a pass over the folded circuit elsewhere in the module
    post = None
    for g in ctx.repo.iter_functions():
        if g.module.name != COMPILER or g is f:
            continue
        txt = unparse(g.node)
        if "TorchPointerParameter" in txt and ("retrieve_compiled_parameter" in txt or "_compiled_parameters" in txt) and "deref" in txt:
            post = g
    if looked_up:
        out.append(ok("R3h", f.qualname, "stale-pointer", "the folded pointer's target is looked up from the pre-fold target", f.loc))
    elif post is not None:
        out.append(ok("R3h", f.qualname, "stale-pointer", f"pointers are re-resolved by {post.name}", post.loc))
    else:
        out.append(
            viol(
                "R3h",
                f.qualname,
                "stale-pointer",
                "the target of a folded pointer is taken from deref() of the pre-fold pointer without any lookup: a pointer to a tensor of the "
                "same circuit (a parameter shared between two layers through .ref()) keeps referring to the unfolded tensor that folding "
                "replaced -- under fold=True the circuit raises 'tensor parameter has not been initialized' where the unfolded one evaluates",
                f"{f.module.relpath}:{derefs[0].lineno}",
            )
        )
    return out



# ------------------------------------------------------------------------------------------ R3i
def r3i(ctx: Ctx) -> list[Ob]:
    """R3i -- an optional hyper-parameter is absent when it is ``None``, not when it is falsy.

    The folder and the optimiser rebuild a module from ``config``.  A ``config`` (or ``fold_settings``)
    that includes an optional numeric attribute under a *truthiness* test (``if self.vmin:``) drops a
    bound of exactly 0.0: the rebuilt module silently loses it (``Clamp(vmin=0.0, vmax=1.0)`` folds to
    ``clamp(x, max=1.0)``).  In every ``config`` / ``fold_settings`` / ``params`` of the torch-side
    modules, a branch condition that reads a self attribute must be a None-test (or a comparison),
    not the bare attribute."""
    out: list[Ob] = []
    for c in ctx.repo.classes.values():
        if not c.module.name.startswith("cirkit.backend.torch"):
            continue
        for mname in ("config", "fold_settings", "params", "sub_modules"):
            m = c.methods.get(mname)
            if m is None:
                continue
            tests = [n.test for n in walk_no_nested(m.node) if isinstance(n, (ast.If, ast.IfExp))]
            if not tests:
                continue
            for t in tests:
                parts = t.values if isinstance(t, ast.BoolOp) else [t]
                for p_ in parts:
                    q = p_.operand if isinstance(p_, ast.UnaryOp) and isinstance(p_.op, ast.Not) else p_
                    a = is_self_attr(q)
                    site = f"{c.module.relpath}:{t.lineno}"
                    if a is not None:
                        init = ctx.repo.lookup(c, "__init__")
                        ann = ""
                        if init is not None:
                            for prm in init.params:
                                if prm.name == a.lstrip("_") and prm.annotation is not None:
                                    ann = unparse(prm.annotation)
                        if ann in ("bool",):
                            out.append(ok("R3i", m.qualname, f"optional:{a}", "a boolean flag", site))
                        else:
                            out.append(viol("R3i", m.qualname, f"optional:{a}", f"`{unparse(t)}` includes self.{a} in {mname} only when it is truthy: a value of exactly 0 (annotation `{ann or '?'}`) is treated as absent, and the module rebuilt from {mname} by the folder / optimiser loses it", site))
                    else:
                        out.append(ok("R3i", m.qualname, f"optional:{unparse(q)[:30]}", "an explicit test (None-ness / comparison)", site, nontrivial=False))
    return out


# ------------------------------------------------------------------------------------------ R3j
def r3j(ctx: Ctx) -> list[Ob]:
    """R3j -- the fold-group key is hashable.

    ``group_foldable_modules`` uses ``(type, *fold_settings)`` as a dictionary key and
    ``fold_settings`` of layers and parameter nodes contains ``config.items()``: every value a
    torch-side ``config`` returns must be hashable.  A list (a ``[..]`` display, a comprehension,
    ``list(..)``, ``Tensor.tolist()`` -- directly or through a property of the class) makes every
    compilation with fold=True of a circuit that contains the module raise ``TypeError: unhashable``."""
    out: list[Ob] = []

    def unhashable(c: ClassInfo, e: ast.AST, depth: int = 0) -> str | None:
        if isinstance(e, (ast.List, ast.ListComp, ast.Dict, ast.DictComp, ast.Set, ast.SetComp)):
            return f"a {type(e).__name__} display"
        if isinstance(e, ast.Call):
            f = dotted(e.func) or ""
            if f in ("list", "dict", "set") or f.endswith(".tolist") or (isinstance(e.func, ast.Attribute) and e.func.attr == "tolist"):
                return f"{f or '.tolist'}(..)"
            if f in ("tuple", "frozenset", "int", "float", "str", "bool", "len"):
                return None
        a = is_self_attr(e)
        if a and depth < 2:
            m = ctx.repo.lookup(c, a)
            if m is not None and m.is_property:
                for r in walk_no_nested(m.node):
                    if isinstance(r, ast.Return) and r.value is not None:
                        u = unhashable(c, r.value, depth + 1)
                        if u:
                            return f"property {a} -> {u}"
        return None

    for c in ctx.repo.classes.values():
        if not c.module.name.startswith("cirkit.backend.torch"):
            continue
        if "config" not in c.methods:
            continue
        try:
            dv = ctx.cf.dict_property(c, "config")
        except Exception:
            continue
        for k, item in dv.items.items():
            v = item[0] if isinstance(item, tuple) else item
            u = unhashable(c, v)
            site = c.methods["config"].loc
            if u:
                out.append(viol("R3j", c.qualname, f"hashable:config[{k}]", f"config['{k}'] is {u}: fold_settings (= config.items()) is used as a dictionary key by the folder, so compiling any circuit that contains a {c.name} with fold=True raises TypeError (unhashable)", site))
            else:
                out.append(ok("R3j", c.qualname, f"hashable:config[{k}]", "hashable", site, nontrivial=False))
    return out


# ------------------------------------------------------------------------------------------ R3k


def r3k(ctx: Ctx) -> list[Ob]:
    """R3k -- a symbolic layer survives ``copyref()``.

    Every operator copies the layers it does not transform with ``Layer.copyref()``, which rebuilds
    ``type(self)(**{param: ref}, **self.config)``.  Each constructor parameter of a concrete symbolic
    layer that is neither one of its ``params`` nor a ``*_factory`` (an alternative way of giving a
    parameter) must therefore be a key of ``config`` and round-trip through it; a hyper-parameter with
    a default that is missing from ``config`` (``log_space`` of a constant layer) is silently reset in
    every derived circuit -- the second operator applied to a circuit then reads log-space constants
    as linear values."""
    out: list[Ob] = []
    base = ctx.repo.cls(SYM_LAYER)
    for c in ctx.repo.subclasses(base):
        if not ctx.repo.is_concrete(c):
            continue
        names, vararg, kwarg = _init_names(ctx, c)
        if vararg:
            out.append(unres("R3k", c.qualname, "config==init", "__init__ takes *args", c.loc))
            continue
        dv = ctx.cf.dict_property(c, "config")
        if dv.opaque:
            out.append(unres("R3k", c.qualname, "config==init", f"config not interpretable: {dv.opaque}", c.loc))
            continue
        try:
            pk = set(ctx.cf.dict_property(c, "params").items)
        except Exception:
            pk = set()
        keys = set(dv.items)
        hyper = [n for n in names if n not in pk and not n.endswith("_factory") and n not in ("scope",) or n == "scope"]
        hyper = [n for n in hyper if n not in pk and not n.endswith("_factory")]
        missing = [n for n in hyper if n not in keys]
        extra = [k for k in keys if k not in names] if not kwarg else []
        if missing:
            out.append(viol("R3k", c.qualname, "config==init", f"__init__ parameter(s) {missing} of the symbolic layer are missing from config: Layer.copyref() = type(self)(**refs, **config) -- the copy every operator makes of an untouched layer -- resets them to their defaults (or raises, for a parameter without default)", c.loc))
        if extra:
            out.append(viol("R3k", c.qualname, "config==init", f"config key(s) {extra} are not __init__ parameters: copyref() raises TypeError", c.loc))
        if not missing and not extra:
            out.append(ok("R3k", c.qualname, "config==init", f"config keys {sorted(keys)} cover the hyper-parameters of __init__", c.loc))
        _roundtrip(ctx, c, "config", "R3k", out)
    return out


# ------------------------------------------------------------------------------------------ R3l / R3m
ADDRESS_BOOK_MODULES = (
    "cirkit.backend.torch.graph.folding",
    "cirkit.backend.torch.graph.modules",
    "cirkit.backend.torch.parameters.parameter",
    "cirkit.backend.torch.circuits",
)


def _mentions(ld: LocalDefs, e: ast.AST, name: str, depth: int = 2) -> bool:
    seen: set[int] = set()
    work = [(e, depth)]
    while work:
        x, d = work.pop()
        if id(x) in seen:
            continue
        seen.add(id(x))
        for n in ast.walk(x):
            if isinstance(n, ast.Name) and n.id == name:
                return True
            if isinstance(n, ast.Attribute) and n.attr == name:
                return True
            if isinstance(n, ast.Name) and d > 0:
                for df in ld.defs.get(n.id, []):
                    work.append((df, d - 1))
    return False


def r3l(ctx: Ctx) -> list[Ob]:
    """R3l -- the offsets of the address-book builders are exclusive prefix sums of the fold counts.

    Both builders address fold j of input module k at ``offset[k] + j`` in the concatenation of the
    input modules; ``offset[k]`` has to be the sum of ``num_folds`` of the modules *before* k.  The rule
    recognises the two ways of computing that: (a) ``accumulate`` / ``cumsum`` over a sequence that
    derives from ``num_folds`` and starts with a 0 (``[0] + sizes`` or ``initial=0``); (b) a running
    variable initialised to 0 and updated additively (``+=`` / ``v = v + ..``) from ``num_folds`` in a
    loop.  A running variable that is *overwritten* by the fold count (``offset = num_folds[mid]``) or an
    accumulate without the leading 0 gives the right offsets for one or two input modules -- all the
    suite builds -- and addresses another operand's folds from the third module on."""
    out: list[Ob] = []
    for fname in ("build_address_book_entry", "build_address_book_stacked_entry"):
        f = ctx.repo.func(f"{FOLDING}.{fname}")
        ld = LocalDefs(f.node)
        found = False
        # (a) accumulate / cumsum
        for n in ast.walk(f.node):
            if not isinstance(n, ast.Call):
                continue
            cal = (dotted(n.func) or "").split(".")[-1]
            if isinstance(n.func, ast.Attribute):
                cal = n.func.attr
            if cal not in ("accumulate", "cumsum"):
                continue
            arg = n.args[0] if n.args else (n.func.value if isinstance(n.func, ast.Attribute) else None)
            if cal == "cumsum" and isinstance(n.func, ast.Attribute) and not (dotted(n.func.value) or "").split(".")[-1] in ("np", "numpy", "torch"):
                arg = n.func.value
            if arg is None or not _mentions(ld, arg, "num_folds"):
                continue
            found = True
            inst = f"prefix-sum:{unparse(n)[:50]}"
            loc = f"{f.module.relpath}:{n.lineno}"
            zero_first = False
            a = _hoist(ld, arg)
            for x in ast.walk(a):
                if isinstance(x, ast.BinOp) and isinstance(x.op, ast.Add) and isinstance(x.left, (ast.List, ast.Tuple)) and len(x.left.elts) == 1 and isinstance(x.left.elts[0], ast.Constant) and x.left.elts[0].value == 0:
                    zero_first = True
                if isinstance(x, (ast.List, ast.Tuple)) and x.elts and isinstance(x.elts[0], ast.Constant) and x.elts[0].value == 0 and any(isinstance(e, ast.Starred) for e in x.elts[1:]):
                    zero_first = True
            if any(k.arg == "initial" and isinstance(k.value, ast.Constant) and k.value.value == 0 for k in n.keywords):
                zero_first = True
            if zero_first:
                out.append(ok("R3l", f.qualname, inst, "offsets are the exclusive prefix sums of the fold counts (leading 0)", loc))
            else:
                out.append(viol("R3l", f.qualname, inst, f"`{unparse(n)[:80]}` accumulates the fold counts without a leading 0: the offset of module k then includes its own fold count (every module after the first is addressed one module too far)", loc))
        # (b) running variables
        zero_init = {
            t.id
            for n in ast.walk(f.node)
            if isinstance(n, ast.Assign) and isinstance(n.value, ast.Constant) and n.value.value == 0 and not isinstance(n.value.value, bool)
            for t in n.targets
            if isinstance(t, ast.Name)
        } | {
            n.target.id
            for n in ast.walk(f.node)
            if isinstance(n, ast.AnnAssign) and isinstance(n.target, ast.Name) and isinstance(n.value, ast.Constant) and n.value.value == 0
        }
        seen_nodes: set[int] = set()
        for loop in [n for n in ast.walk(f.node) if isinstance(n, (ast.For, ast.While))]:
            for n in walk_no_nested(loop):
                if id(n) in seen_nodes:
                    continue
                seen_nodes.add(id(n))
                tgt, val, aug = None, None, False
                if isinstance(n, ast.AugAssign) and isinstance(n.target, ast.Name):
                    tgt, val, aug = n.target.id, n.value, isinstance(n.op, ast.Add)
                elif isinstance(n, ast.Assign) and len(n.targets) == 1 and isinstance(n.targets[0], ast.Name) and not (isinstance(n.value, ast.Constant)):
                    tgt, val = n.targets[0].id, n.value
                if tgt is None or tgt not in zero_init or val is None:
                    continue
                if not any(isinstance(x, ast.Name) and x.id == "num_folds" for x in ast.walk(val)) and not _mentions(ld, val, "num_folds", 1):
                    continue
                found = True
                inst = f"running-offset:{tgt}"
                loc = f"{f.module.relpath}:{n.lineno}"
                additive = aug or (
                    isinstance(val, ast.BinOp) and isinstance(val.op, ast.Add) and any(isinstance(s, ast.Name) and s.id == tgt for s in (val.left, val.right))
                )
                if additive:
                    out.append(ok("R3l", f.qualname, inst, f"`{unparse(n)[:60]}` accumulates the fold counts", loc))
                elif isinstance(n, ast.AugAssign):
                    out.append(viol("R3l", f.qualname, inst, f"`{unparse(n)[:60]}`: the running offset is not updated by addition", loc))
                else:
                    out.append(viol("R3l", f.qualname, inst, f"`{unparse(n)[:60]}` overwrites the running offset with a fold count instead of adding to it: offsets are right for the first two input modules and point into another module's folds from the third on (a folded concatenation of three circuits reads the second operand's parameters for the third)", loc))
        if not found:
            # (c) sum over a prefix slice
            for n in ast.walk(f.node):
                if isinstance(n, ast.Call) and isinstance(n.func, ast.Name) and n.func.id == "sum" and n.args and _mentions(ld, n.args[0], "num_folds"):
                    if any(isinstance(x, ast.Slice) and x.lower is None and x.upper is not None for x in ast.walk(n.args[0])):
                        found = True
                        out.append(ok("R3l", f.qualname, f"prefix-sum:{unparse(n)[:50]}", "offsets are sums over a prefix slice of the fold counts", f"{f.module.relpath}:{n.lineno}"))
        if not found:
            out.append(unres("R3l", f.qualname, "prefix-sum", "how the offsets derive from num_folds was not recognised (neither accumulate / cumsum, nor a running sum, nor a sum over a prefix): no verdict", f.loc))
    return out


def r3m(ctx: Ctx) -> list[Ob]:
    """R3m -- fold indices are positional and are never re-ordered.

    Entry i of a fold index (``in_fold_idx`` / ``out_fold_idx`` / ``fold_idx``) says where fold i of a
    module's input or of the graph's output comes from; the consumers (parameters stacked per layer
    fold, outputs of a concatenation, evidence observations per wrapped layer) read the result by
    position.  In the modules that build and use address books no order-changing operation
    (``sorted``, ``reversed``, ``set``, ``.sort()``, ``.reverse()``) may be applied to one: the result
    has the same shape and the same elements, so nothing raises, and it is the identity for a single
    output module, which is all the suite folds."""
    out: list[Ob] = []
    n_fn = 0
    for f in ctx.repo.iter_functions():
        if f.module.name not in ADDRESS_BOOK_MODULES:
            continue
        ld = LocalDefs(f.node)
        uses_idx = False
        for n in walk_no_nested(f.node):
            if isinstance(n, (ast.Name, ast.Attribute, ast.arg)):
                nm = n.id if isinstance(n, ast.Name) else n.attr if isinstance(n, ast.Attribute) else n.arg
                if nm.endswith("fold_idx"):
                    uses_idx = True
        if not uses_idx:
            continue
        n_fn += 1
        bad: list[tuple[ast.AST, str]] = []
        for n in ast.walk(f.node):
            if not isinstance(n, ast.Call):
                continue
            target: ast.AST | None = None
            what = ""
            if isinstance(n.func, ast.Name) and n.func.id in ("sorted", "reversed", "set", "frozenset") and n.args:
                target, what = n.args[0], n.func.id + "(..)"
            elif isinstance(n.func, ast.Attribute) and n.func.attr in ("sort", "reverse") and not n.args:
                target, what = n.func.value, "." + n.func.attr + "()"
            if target is None:
                continue
            direct = any(_is_fold_idx(x) for x in ast.walk(target))
            if not direct and isinstance(target, ast.Name):
                defs = [df for df in ld.defs.get(target.id, []) if isinstance(df, ast.expr)]
                # an element drawn from the index (`for idx in fold_idx`, recorded as ITER) is not the index
                defs = [df for df in defs if not (isinstance(df, ast.Subscript) and isinstance(df.slice, ast.Name) and df.slice.id == "*")]
                direct = any(_is_fold_idx(x) for df in defs for x in ast.walk(df)) and not any(_projects(df) for df in defs)
            if direct and _projects(target):
                direct = False
            if direct:
                bad.append((n, what))
        if bad:
            for n, what in bad:
                out.append(viol("R3m", f.qualname, f"reordered:{unparse(n)[:50]}", f"{what} re-orders a fold index (`{unparse(n)[:80]}`): entry i no longer describes fold i, so the folds of the result are permuted whenever they come from more than one module, interleaved (evidence on mixed-dtype observations, a concatenation repeating an operand)", f"{f.module.relpath}:{n.lineno}"))
        else:
            out.append(ok("R3m", f.qualname, "fold-index-order", "no order-changing operation on a fold index", f.loc))
    if n_fn == 0:
        raise AnalysisError("R3m: no function of the address-book modules uses a fold index (anchor vanished)")
    return out


def _is_fold_idx(x: ast.AST) -> bool:
    return (isinstance(x, ast.Name) and x.id.endswith("fold_idx")) or (isinstance(x, ast.Attribute) and x.attr.endswith("fold_idx"))


def _projects(e: ast.AST) -> bool:
    """the expression keeps only a component of the entries (`idx[0] for idx in fold_idx`: the set of
    module ids), so its order is not the order of the folds"""
    for n in ast.walk(e):
        if isinstance(n, (ast.ListComp, ast.GeneratorExp, ast.SetComp)):
            if isinstance(n.elt, ast.Subscript) and isinstance(n.elt.slice, ast.Constant):
                return True
    return False
