"""Small structural clauses added after the first round (C06 output order of concatenate)."""
from __future__ import annotations

import ast

from ..core import Ctx, Ob, ok, unres, viol
from ..model import AnalysisError, unparse

REORDER = {"sorted", "reversed", "set", "frozenset", "shuffle"}


def _reorders(e: ast.AST) -> str | None:
    for n in ast.walk(e):
        if isinstance(n, ast.Call):
            nm = n.func.id if isinstance(n.func, ast.Name) else (n.func.attr if isinstance(n.func, ast.Attribute) else "")
            if nm in REORDER:
                return nm
        if isinstance(n, ast.Subscript) and isinstance(n.slice, ast.Slice) and n.slice.step is not None:
            return "stepped slice"
        if isinstance(n, (ast.SetComp, ast.Set)):
            return "set"
    return None


def concatenate_order(ctx: Ctx) -> list[Ob]:
    """outputs of concatenate = outputs of the operands, operand by operand in the given order"""
    fq = "cirkit.symbolic.functional.concatenate"
    f = ctx.repo.func(fq)
    operands = f.call_params[0].name
    out: list[Ob] = []
    sites = 0
    for loop in ast.walk(f.node):
        if not isinstance(loop, ast.For):
            continue
        if not any(isinstance(x, ast.Name) and x.id == operands for x in ast.walk(loop.iter)):
            continue
        muts = [
            n
            for n in ast.walk(loop)
            if isinstance(n, ast.Call) and isinstance(n.func, ast.Attribute) and n.func.attr in ("extend", "append", "insert") and "output" in unparse(n.func.value)
        ]
        if not muts:
            continue
        sites += 1
        l = f"{f.module.relpath}:{loop.lineno}"
        r = _reorders(loop.iter)
        if r:
            out.append(viol("R7e", fq, "operand-order", f"the operands are traversed as {unparse(loop.iter)} ({r}): outputs are not stacked in the given operand order", l))
        else:
            out.append(ok("R7e", fq, "operand-order", f"operands traversed as {unparse(loop.iter)}", l))
        for k, m in enumerate(muts):
            lm = f"{f.module.relpath}:{m.lineno}"
            if m.func.attr == "insert":
                out.append(viol("R7e", fq, f"outputs-order#{k}", f"{unparse(m)[:80]}: outputs are inserted, not appended in order", lm))
                continue
            r = _reorders(m.args[0]) if m.args else None
            filt = any(isinstance(g, ast.comprehension) and g.ifs for g in ast.walk(m.args[0])) if m.args else False
            if r or filt:
                out.append(viol("R7e", fq, f"outputs-order#{k}", f"{unparse(m)[:100]}: the operand's outputs are {'filtered' if filt else 're-ordered (' + str(r) + ')'}, not stacked as declared", lm))
            elif m.args and any(isinstance(x, ast.Attribute) and x.attr == "outputs" for x in ast.walk(m.args[0])):
                out.append(ok("R7e", fq, f"outputs-order#{k}", "operand outputs appended in declared order", lm))
            else:
                # appended element by element: the order is that of the innermost loop around the call
                inner = None
                for lp in ast.walk(loop):
                    if isinstance(lp, ast.For) and lp is not loop and any(x is m for x in ast.walk(lp)):
                        inner = lp  # the last one found by the walk that contains m is the innermost
                if inner is not None and any(isinstance(x, ast.Attribute) and x.attr == "outputs" for x in ast.walk(inner.iter)) and not _reorders(inner.iter):
                    out.append(ok("R7e", fq, f"outputs-order#{k}", f"outputs appended while iterating {unparse(inner.iter)}", lm))
                elif inner is not None:
                    out.append(viol("R7e", fq, f"outputs-order#{k}", f"{unparse(m)[:60]} runs inside the loop over `{unparse(inner.iter)[:50]}`: an operand's outputs are stacked in the order of that traversal, not in the order the operand declares them", lm))
                else:
                    out.append(unres("R7e", fq, f"outputs-order#{k}", f"{unparse(m)[:80]}: not derived from <operand>.outputs", lm))
    if sites == 0:
        raise AnalysisError("vanished anchor: the loop of concatenate that collects the operands' outputs")
    return out


def must_call_on_all_paths(ctx: Ctx, fq: str, callee: str, rule: str, inst: str, why: str) -> Ob:
    """every normal exit of *fq* passes through a call of ``self.<callee>(..)``"""
    from ..cfg import ENTRY, EXIT, build_cfg, stmt_calls

    f = ctx.repo.func(fq)
    g = build_cfg(f.node)

    def calls(n: int) -> bool:
        if n not in g.stmts:
            return False
        return any(isinstance(c.func, ast.Attribute) and c.func.attr == callee for c in stmt_calls(g.stmts[n]))

    if not any(calls(n) for n in g.stmts):
        return viol(rule, fq, inst, f"{callee}() is never called: {why}", f.loc)
    seen = {ENTRY}
    stack = [ENTRY]
    while stack:
        a = stack.pop()
        for b, _ in g.succ.get(a, []):
            if b in seen or calls(b):
                continue
            seen.add(b)
            stack.append(b)
    if EXIT in seen:
        return viol(rule, fq, inst, f"a normal exit is reachable without calling {callee}(): {why}", f.loc)
    return ok(rule, fq, inst, f"every normal exit passes through {callee}()", f.loc)
