"""R10 -- module registration discipline (state dict, C19).

``torch.nn.Module`` puts a tensor into ``state_dict()`` only if it was registered: an
``nn.Parameter`` / ``nn.Module`` assigned as a *direct attribute*, a ``register_buffer`` call, or a
module held by an ``nn.ModuleList`` / ``nn.ModuleDict``.  A module kept in a plain list, dict or
tuple, or hidden behind ``object.__setattr__`` / ``__dict__``, silently drops out of the state
dict (and of ``.to(device)``): saving and re-loading then leaves the fresh circuit with its own
random values for it.

R10a  every constructor parameter of a torch-side module class that is itself a module (annotated
      TorchParameter, TorchLayer, TorchInputLayer, TorchTensorParameter, ...) is stored by a plain
      attribute assignment ``self.<attr> = <that parameter>`` in that constructor (or forwarded to
      ``super().__init__`` which does so).
R10b  every value of the ``params`` / ``sub_modules`` mapping of a layer is such a registered attribute
      (``reset_parameters`` and the folder iterate those mappings: an unregistered entry is
      initialised but never saved).
R10c  ``TorchTensorParameter``: the storage attribute is only ever assigned ``None`` or an
      ``nn.Parameter(...)`` and ``forward`` returns that attribute itself (not a clone / detach).
R10d  graph containers: the module sequence ``TorchDiAcyclicGraph.__init__`` hands to the graph base
      class is an ``nn.ModuleList``; tensors an ``AddressBook`` keeps are registered as buffers.
R10e  index tensors built in constructors (scope index, fold index, index-parameter indices) are
      registered buffers, not plain attributes (they are part of the saved state and follow ``.to``).
R10f  no torch-side module overrides ``state_dict`` / ``load_state_dict`` / ``_save_to_state_dict`` /
      ``_load_from_state_dict`` / ``__setattr__`` / ``__getstate__`` (the default registration semantics apply).
"""

from __future__ import annotations

import ast

from ..core import Ctx, Ob, note, ok, unres, viol
from ..flow import LocalDefs
from ..model import AnalysisError, ClassInfo, FuncInfo, dotted, is_self_attr, unparse, walk_no_nested

ABSTRACT_MODULE = "cirkit.backend.torch.graph.modules.AbstractTorchModule"
GRAPH = "cirkit.backend.torch.graph.modules.TorchDiAcyclicGraph"
ADDRESS_BOOK = "cirkit.backend.torch.graph.modules.AddressBook"
TENSOR_PARAM = "cirkit.backend.torch.parameters.nodes.TorchTensorParameter"
LAYER = "cirkit.backend.torch.layers.base.TorchLayer"

MODULE_ANN = ("TorchParameter", "TorchLayer", "TorchInputLayer", "TorchTensorParameter", "TorchParameterNode", "AbstractTorchModule", "nn.Module")
OVERRIDES = ("state_dict", "load_state_dict", "_save_to_state_dict", "_load_from_state_dict", "__setattr__", "__getstate__", "__setstate__", "_apply")


def _module_classes(ctx: Ctx) -> list[ClassInfo]:
    repo = ctx.repo
    out = list(repo.subclasses(repo.cls(ABSTRACT_MODULE), strict=False))
    for q in (GRAPH, ADDRESS_BOOK):
        out += list(repo.subclasses(repo.cls(q), strict=False))
    seen, res = set(), []
    for c in out:
        if c.qualname not in seen:
            seen.add(c.qualname)
            res.append(c)
    return res


def _is_module_ann(p: ast.AST | None) -> bool:
    if p is None:
        return False
    t = unparse(p)
    return any(a in t for a in MODULE_ANN) and "Sequence" not in t and "Mapping" not in t and "list" not in t and "dict" not in t


def _direct_stores(init: FuncInfo) -> dict[str, list[ast.AST]]:
    """attr -> values assigned with  self.attr = value  (plain or annotated) in the function"""
    out: dict[str, list[ast.AST]] = {}
    for n in walk_no_nested(init.node):
        if isinstance(n, ast.Assign):
            for t in n.targets:
                a = is_self_attr(t)
                if a:
                    out.setdefault(a, []).append(n.value)
        elif isinstance(n, ast.AnnAssign) and n.value is not None:
            a = is_self_attr(n.target)
            if a:
                out.setdefault(a, []).append(n.value)
    return out


def _super_forwards(init: FuncInfo, pname: str) -> bool:
    for n in walk_no_nested(init.node):
        if isinstance(n, ast.Call) and isinstance(n.func, ast.Attribute) and n.func.attr == "__init__" and isinstance(n.func.value, ast.Call) and isinstance(n.func.value.func, ast.Name) and n.func.value.func.id == "super":
            for a in list(n.args) + [k.value for k in n.keywords]:
                if isinstance(a, ast.Name) and a.id == pname:
                    return True
    return False


def r10a(ctx: Ctx) -> list[Ob]:
    obs: list[Ob] = []
    for c in _module_classes(ctx):
        init = c.methods.get("__init__")
        if init is None:
            continue
        stores = _direct_stores(init)
        ld = LocalDefs(init.node)
        for p in init.params:
            if p.name == "self" or not _is_module_ann(p.annotation):
                continue
            inst = f"ctor:{p.name}"
            direct = [a for a, vs in stores.items() if any(isinstance(v, ast.Name) and v.id == p.name for v in vs)]
            if direct:
                obs.append(ok("R10a", c.qualname, inst, f"registered as self.{direct[0]}", init.loc))
                continue
            if _super_forwards(init, p.name):
                obs.append(ok("R10a", c.qualname, inst, "forwarded to super().__init__", init.loc, nontrivial=False))
                continue
            # stored inside a container / through another route?
            wrapped = [a for a, vs in stores.items() if any(p.name in {x.id for x in ast.walk(v) if isinstance(x, ast.Name)} and isinstance(v, (ast.List, ast.Tuple, ast.Dict, ast.Set, ast.ListComp, ast.DictComp)) for v in vs)]
            hidden = [n for n in walk_no_nested(init.node) if isinstance(n, ast.Call) and (dotted(n.func) or "").endswith(("object.__setattr__", "__dict__.update")) ]
            hidden += [n for n in walk_no_nested(init.node) if isinstance(n, ast.Subscript) and isinstance(n.value, ast.Attribute) and n.value.attr == "__dict__"]
            if wrapped:
                obs.append(viol("R10a", c.qualname, inst, f"the module `{p.name}` is kept inside a plain container (self.{wrapped[0]}): nn.Module does not register it, so its tensors are missing from state_dict()", init.loc))
            elif hidden:
                obs.append(viol("R10a", c.qualname, inst, f"the module `{p.name}` is stored bypassing nn.Module.__setattr__: it is not registered", init.loc))
            else:
                used = any(isinstance(x, ast.Name) and x.id == p.name for n in walk_no_nested(init.node) for x in ast.walk(n) if isinstance(n, ast.stmt))
                obs.append(viol("R10a", c.qualname, inst, f"the module `{p.name}` is never assigned to an attribute of the new module" + ("" if used else " (unused)") + ": it is not registered", init.loc))
    return obs


def r10b(ctx: Ctx) -> list[Ob]:
    obs: list[Ob] = []
    repo = ctx.repo
    for c in repo.subclasses(repo.cls(LAYER), strict=False):
        for prop in ("params", "sub_modules"):
            f = c.methods.get(prop)
            if f is None:
                continue
            registered = set()
            for k in repo.mro(c):
                i = k.methods.get("__init__")
                if i is not None:
                    for a, vs in _direct_stores(i).items():
                        registered.add(a)
            for n in walk_no_nested(f.node):
                vals: list[ast.AST] = []
                if isinstance(n, ast.Dict):
                    vals = list(n.values)
                elif isinstance(n, ast.Assign) and isinstance(n.targets[0], ast.Subscript):
                    vals = [n.value]
                elif isinstance(n, ast.Call) and isinstance(n.func, ast.Attribute) and n.func.attr == "update":
                    vals = [k.value for k in n.keywords]
                for v in vals:
                    a = is_self_attr(v)
                    inst = f"{prop}:{unparse(v)}"
                    if a is None:
                        obs.append(unres("R10b", c.qualname, inst, "value is not a plain attribute read", f.loc))
                    elif a in registered:
                        obs.append(ok("R10b", c.qualname, inst, "a registered attribute", f.loc))
                    else:
                        obs.append(viol("R10b", c.qualname, inst, f"`{prop}` lists self.{a}, which no constructor of the class assigns as a direct attribute: it is initialised / folded but not part of the saved state", f.loc))
    return obs


def r10c(ctx: Ctx) -> list[Ob]:
    obs: list[Ob] = []
    c = ctx.repo.cls(TENSOR_PARAM)
    fwd = c.methods.get("forward")
    if fwd is None:
        return [unres("R10c", c.qualname, "forward", "no forward method", c.loc)]
    rets = [r.value for r in walk_no_nested(fwd.node) if isinstance(r, ast.Return) and r.value is not None]
    storage = {is_self_attr(r) for r in rets}
    if len(storage) != 1 or None in storage:
        return [unres("R10c", c.qualname, "forward", f"forward does not return one plain storage attribute ({[unparse(r) for r in rets]}): no verdict", fwd.loc)]
    attr = storage.pop()
    obs.append(ok("R10c", c.qualname, "forward", f"returns the storage attribute self.{attr} itself", fwd.loc))
    n_assign = 0
    for m in c.methods.values():
        for n in walk_no_nested(m.node):
            if isinstance(n, (ast.Assign, ast.AnnAssign)):
                targets = n.targets if isinstance(n, ast.Assign) else [n.target]
                if any(is_self_attr(t) == attr for t in targets) and n.value is not None:
                    n_assign += 1
                    v = n.value
                    is_none = isinstance(v, ast.Constant) and v.value is None
                    is_param = isinstance(v, ast.Call) and (dotted(v.func) or "").split(".")[-1] == "Parameter"
                    inst = f"store@{m.name}:{unparse(v)[:40]}"
                    if is_none or is_param:
                        obs.append(ok("R10c", c.qualname, inst, "None or nn.Parameter(...)", m.loc))
                    else:
                        obs.append(viol("R10c", c.qualname, inst, f"self.{attr} is assigned `{unparse(v)[:60]}`, which is not an nn.Parameter: the tensor is not registered and is missing from state_dict()", m.loc))
    if n_assign == 0:
        obs.append(unres("R10c", c.qualname, "store", f"no assignment of self.{attr} found", c.loc))
    return obs


def r10d(ctx: Ctx) -> list[Ob]:
    obs: list[Ob] = []
    g = ctx.repo.cls(GRAPH)
    init = g.methods.get("__init__")
    if init is None:
        return [unres("R10d", g.qualname, "modules", "no __init__", g.loc)]
    ld = LocalDefs(init.node)
    first = [p.name for p in init.params if p.name != "self"][0]
    # the call that hands the modules to the graph base class
    sites = [n for n in walk_no_nested(init.node) if isinstance(n, ast.Call) and isinstance(n.func, ast.Attribute) and n.func.attr == "__init__" and n.args]
    sites = [n for n in sites if any(isinstance(a, ast.Name) and a.id == first for a in n.args)]
    if not sites:
        obs.append(unres("R10d", g.qualname, "modules", "no base-class __init__ call receiving the module sequence", init.loc))
    for n in sites:
        calls = [(dotted(c_.func) or "").split(".")[-1] for c_ in ld.calls(n.args[0])]
        if "ModuleList" in calls:
            obs.append(ok("R10d", g.qualname, "modules", "the module sequence is an nn.ModuleList", init.loc))
        else:
            obs.append(viol("R10d", g.qualname, "modules", "the module sequence handed to the graph is not wrapped in nn.ModuleList: the layers / parameter nodes are not registered, state_dict() is empty", init.loc))
    ab = ctx.repo.cls(ADDRESS_BOOK)
    abi = ab.methods.get("__init__")
    if abi is not None:
        reg = [n for n in walk_no_nested(abi.node) if isinstance(n, ast.Call) and isinstance(n.func, ast.Attribute) and n.func.attr == "register_buffer"]
        (obs.append(ok("R10d", ab.qualname, "fold-index", "fold index tensors are registered buffers", abi.loc)) if reg else obs.append(viol("R10d", ab.qualname, "fold-index", "fold index tensors are no longer registered as buffers", abi.loc)))
    return obs


def r10e(ctx: Ctx) -> list[Ob]:
    obs: list[Ob] = []
    for c in _module_classes(ctx):
        init = c.methods.get("__init__")
        if init is None:
            continue
        for a, vs in _direct_stores(init).items():
            for v in vs:
                if isinstance(v, ast.Call) and (dotted(v.func) or "") in ("torch.tensor", "torch.as_tensor", "torch.arange", "torch.zeros", "torch.ones", "torch.empty"):
                    obs.append(viol("R10e", c.qualname, f"tensor:{a}", f"self.{a} holds a tensor built in the constructor as a plain attribute; the siblings register theirs with register_buffer", init.loc))
        for n in walk_no_nested(init.node):
            if isinstance(n, ast.Call) and isinstance(n.func, ast.Attribute) and n.func.attr == "register_buffer" and n.args and isinstance(n.args[0], ast.Constant):
                obs.append(ok("R10e", c.qualname, f"buffer:{n.args[0].value}", "registered buffer", init.loc))
    return obs


def r10f(ctx: Ctx) -> list[Ob]:
    obs: list[Ob] = []
    n = 0
    for c in _module_classes(ctx):
        n += 1
        bad = [m for m in OVERRIDES if m in c.methods]
        if bad:
            obs.append(viol("R10f", c.qualname, "overrides", f"overrides {bad}: the default registration / state-dict semantics no longer apply", c.loc))
        else:
            obs.append(ok("R10f", c.qualname, "overrides", "default nn.Module state-dict semantics", c.loc, nontrivial=False))
    return obs


def run(ctx: Ctx) -> list[Ob]:
    return r10a(ctx) + r10b(ctx) + r10c(ctx) + r10d(ctx) + r10e(ctx) + r10f(ctx)


# ------------------------------------------------------------------------------- R10g: evaluation purity
EVAL_METHODS = ("forward", "__call__", "evaluate", "log_partition_function", "log_unnormalized_likelihood", "integrate", "sample", "extended_forward")


def r10g(ctx: Ctx, only: tuple[str, ...] | None = None) -> list[Ob]:
    """R10g: evaluating a torch-side module is a function of its *current* parameters: no evaluation
    method (forward, __call__, evaluate, log_partition_function, integrate, sample, ...) of a layer,
    parameter node, parameter graph or circuit stores anything on ``self``.  A value memoised during
    evaluation survives in-place updates, re-initialisations and ``load_state_dict`` of the
    parameters it was computed from (derived circuits read the operand's tensors by reference)."""
    obs: list[Ob] = []
    for c in _module_classes(ctx):
        if only is not None and not any(o in c.qualname for o in only):
            continue
        for mname in EVAL_METHODS:
            m = c.methods.get(mname)
            if m is None or m.is_abstract:
                continue
            writes = []
            benign = []
            ld = LocalDefs(m.node)
            for n in walk_no_nested(m.node):
                targets: list[ast.AST] = []
                if isinstance(n, ast.Assign):
                    targets = list(n.targets)
                elif isinstance(n, (ast.AnnAssign, ast.AugAssign)):
                    targets = [n.target]
                value = getattr(n, "value", None)
                for t in targets:
                    for x in ast.walk(t):
                        a = is_self_attr(x)
                        if a:
                            # only a value computed from the module's state (a call of a parameter, a
                            # sub-layer, evaluate(), or of the method's inputs) can go stale; an index /
                            # shape helper built from sizes cannot
                            dep = False
                            params_ = {p.name for p in m.params if p.name != "self"}
                            for e in (ld.expand(value) if value is not None else []):
                                for c_ in ast.walk(e):
                                    if isinstance(c_, ast.Call) and isinstance(c_.func, ast.Attribute):
                                        root = c_.func
                                        while isinstance(root, (ast.Attribute, ast.Call, ast.Subscript)):
                                            root = root.func if isinstance(root, ast.Call) else root.value
                                        if isinstance(root, ast.Name) and root.id == "self" and c_.func.attr not in ("size", "dim", "numel", "new_empty"):
                                            dep = True
                                    if isinstance(c_, ast.Name) and c_.id in params_:
                                        dep = True
                            (writes if dep or isinstance(n, ast.AugAssign) else benign).append((a, n.lineno))
                if isinstance(n, ast.Call) and isinstance(n.func, ast.Name) and n.func.id == "setattr" and n.args and isinstance(n.args[0], ast.Name) and n.args[0].id == "self":
                    writes.append(("setattr", n.lineno))
            # a store matters only if some evaluation method of the class reads the attribute back
            read_back: set[str] = set()
            for em in EVAL_METHODS:
                mm = ctx.repo.lookup(c, em)
                if mm is None:
                    continue
                for x in walk_no_nested(mm.node):
                    if isinstance(x, ast.Attribute) and isinstance(x.ctx, ast.Load) and isinstance(x.value, ast.Name) and x.value.id == "self":
                        read_back.add(x.attr)
            writes = [(a, ln) for a, ln in writes if a in read_back or a == "setattr"]
            inst = f"pure:{mname}"
            if writes:
                a, ln = writes[0]
                obs.append(viol("R10g", c.qualname, inst, f"{c.name}.{mname} stores self.{a} while evaluating and evaluation reads it back: the stored value outlives in-place updates / re-initialisation / load_state_dict of the parameters it was computed from", f"{m.module.relpath}:{ln}"))
            else:
                obs.append(ok("R10g", c.qualname, inst, "no state written during evaluation", m.loc, nontrivial=False))
    return obs


# ------------------------------------------------------------------------------------------ R10i
VIEW_METHODS = {"view", "reshape", "permute", "transpose", "squeeze", "unsqueeze", "expand", "expand_as", "narrow", "unbind", "chunk", "split", "detach", "flatten", "unflatten", "movedim", "swapaxes", "select", "view_as", "contiguous", "t", "mT", "T", "real", "imag"}


def _basic_index(sl: ast.AST) -> bool:
    items = sl.elts if isinstance(sl, ast.Tuple) else [sl]
    for x in items:
        if isinstance(x, ast.Slice):
            continue
        if isinstance(x, ast.Constant) and (x.value is None or x.value is Ellipsis or isinstance(x.value, int)):
            continue
        if isinstance(x, ast.UnaryOp) and isinstance(x.operand, ast.Constant):
            continue
        if isinstance(x, ast.Name):
            continue  # a loop counter: x[:, i] is a view
        return False
    return True


def r10i(ctx: Ctx, only: tuple[str, ...] | None = None) -> list[Ob]:
    """R10i -- evaluation methods do not write into their arguments.

    The tensors handed to ``forward`` / ``sample`` are the stored outputs of other modules: the address
    book hands out *views* where it can (``outputs[i][None]`` for a module that reads all folds of one
    producer in order).  A value that aliases an argument -- the argument itself, a basic index
    ``x[:, 0]``, a view method (``view / permute / unsqueeze / unbind ..``) of one -- must not be the
    target of an augmented assignment (``y += ..`` is in place for tensors), of an in-place ``name_``
    method, or of an item assignment: every later reader of the producer's output would see the
    modified values (samples of other variables added twice, outside the domain)."""
    obs: list[Ob] = []
    # the query objects evaluate circuits on the caller's tensors: same discipline
    query_classes = [c for c in ctx.repo.classes.values() if c.module.name == "cirkit.backend.torch.queries"]
    for c in _module_classes(ctx) + query_classes:
        if only is not None and not any(o in c.qualname for o in only):
            continue
        for mname in tuple(EVAL_METHODS) + (("_layer_fn", "_pad_samples", "scopes_to_mask") if c in query_classes else ()):
            m = c.methods.get(mname)
            if m is None or m.is_abstract:
                continue
            params_ = {p.name for p in m.params if p.name not in ("self", "cls")}
            if not params_:
                continue
            alias = set(params_)
            fresh: set[str] = set()
            changed = True
            assigns = [n for n in walk_no_nested(m.node) if isinstance(n, ast.Assign) and len(n.targets) == 1 and isinstance(n.targets[0], ast.Name)]
            loops = [n for n in walk_no_nested(m.node) if isinstance(n, ast.For) and isinstance(n.target, ast.Name)]

            def is_alias_expr(e: ast.AST) -> bool:
                if isinstance(e, ast.Name):
                    return e.id in alias
                if isinstance(e, ast.Subscript):
                    return is_alias_expr(e.value) and _basic_index(e.slice)
                if isinstance(e, ast.Attribute) and e.attr in VIEW_METHODS:
                    return is_alias_expr(e.value)
                if isinstance(e, ast.Call) and isinstance(e.func, ast.Attribute) and e.func.attr in VIEW_METHODS:
                    return is_alias_expr(e.func.value)
                if isinstance(e, ast.Call) and (dotted(e.func) or "").split(".")[-1] in ("reversed", "iter") and e.args:
                    return is_alias_expr(e.args[0])
                return False

            while changed:
                changed = False
                for a in assigns:
                    t = a.targets[0].id
                    if is_alias_expr(a.value):
                        if t not in alias:
                            alias.add(t)
                            changed = True
                for lp in loops:
                    if is_alias_expr(lp.iter) and lp.target.id not in alias:
                        alias.add(lp.target.id)
                        changed = True
            # a name that is *also* bound to a fresh value somewhere is only an alias on some paths: keep it (may-alias)
            bad = None
            for n in walk_no_nested(m.node):
                if isinstance(n, ast.AugAssign):
                    t = n.target
                    base = t
                    while isinstance(base, ast.Subscript):
                        base = base.value
                    if isinstance(base, ast.Name) and base.id in alias and (base.id not in params_ or _tensor_param(m, base.id)):
                        # an alias obtained through a view, or a tensor parameter itself
                        if base.id in params_ or any(isinstance(a.value, (ast.Subscript, ast.Call, ast.Attribute)) for a in assigns if a.targets[0].id == base.id) or any(lp.target.id == base.id for lp in loops):
                            bad = (n, f"`{unparse(n)[:60]}` updates in place")
                            break
                if isinstance(n, ast.Assign):
                    for t in n.targets:
                        if isinstance(t, ast.Subscript):
                            base = t.value
                            while isinstance(base, ast.Subscript):
                                base = base.value
                            if isinstance(base, ast.Name) and base.id in alias and (base.id not in params_ or _tensor_param(m, base.id)):
                                bad = (n, f"`{unparse(t)[:40]} = ..` writes into")
                                break
                if isinstance(n, ast.Call) and isinstance(n.func, ast.Attribute) and n.func.attr.endswith("_") and not n.func.attr.startswith("_") and is_alias_expr(n.func.value):
                    root = n.func.value
                    while isinstance(root, (ast.Subscript, ast.Attribute, ast.Call)):
                        root = root.func if isinstance(root, ast.Call) else root.value
                    if isinstance(root, ast.Name) and (root.id not in params_ or _tensor_param(m, root.id)):
                        bad = (n, f"`{unparse(n)[:60]}` modifies in place")
                if bad:
                    break
            inst = f"inputs-untouched:{mname}"
            if bad:
                n, what = bad
                obs.append(viol("R10i", c.qualname, inst, f"{what} a tensor that aliases an argument of {c.name}.{mname}: the argument is the caller's tensor or the stored output of another module (the address book hands out views), so every later reader sees the modified values", f"{m.module.relpath}:{n.lineno}"))
            else:
                obs.append(ok("R10i", c.qualname, inst, "no in-place update of a value that aliases an argument", m.loc, nontrivial=False))
    return obs


def _tensor_param(m: Any, name: str) -> bool:
    for p in m.params:
        if p.name == name:
            ann = unparse(p.annotation) if p.annotation is not None else ""
            return "Tensor" in ann or ann == ""
    return False


# ------------------------------------------------------------------------------------------ R10j
def r10j(ctx: Ctx) -> list[Ob]:
    """R10j -- resetting a circuit reaches the parameters of wrapped layers.

    A layer may own further layers (``sub_modules``: the layer an evidence layer wraps); their
    parameter graphs are not part of the wrapper's ``params``.  ``TorchCircuit.reset_parameters`` --
    the call that allocates and initialises every tensor at the end of a compilation -- therefore has
    to visit, for every layer, its ``params`` *and*, recursively, the layers in its ``sub_modules``:
    otherwise a wrapped layer that owns a tensor (a hand-built ``EvidenceLayer(CategoricalLayer(..))``)
    is compiled with a tensor that is never allocated."""
    fq = "cirkit.backend.torch.circuits.TorchCircuit.reset_parameters"
    f = ctx.repo.func(fq)
    txt_nodes = list(ast.walk(f.node))
    reads_params = any(isinstance(n, ast.Attribute) and n.attr == "params" for n in txt_nodes)
    reads_subs = any(isinstance(n, ast.Attribute) and n.attr == "sub_modules" for n in txt_nodes)
    # delegation to a helper of the layer / module classes that does the descent
    calls = {n.func.attr for n in txt_nodes if isinstance(n, ast.Call) and isinstance(n.func, ast.Attribute)} | {n.func.id for n in txt_nodes if isinstance(n, ast.Call) and isinstance(n.func, ast.Name)}
    recursive = False
    for n in txt_nodes:
        if isinstance(n, ast.FunctionDef) and n is not f.node:
            if any(isinstance(c, ast.Call) and isinstance(c.func, ast.Name) and c.func.id == n.name for c in ast.walk(n)):
                recursive = True
    if not reads_params and "reset_parameters" in calls:
        # `for l in self.layers: l.reset_parameters()` -- then the layer class must descend
        lay = ctx.repo.cls("cirkit.backend.torch.layers.base.TorchLayer")
        m = ctx.repo.lookup(lay, "reset_parameters")
        if m is not None and any(isinstance(n, ast.Attribute) and n.attr == "sub_modules" for n in ast.walk(m.node)):
            return [ok("R10j", fq, "reaches-sub-modules", "delegates to TorchLayer.reset_parameters, which descends into sub_modules", f.loc)]
        return [unres("R10j", fq, "reaches-sub-modules", "delegates to a per-layer reset the rule has no model of", f.loc)]
    if reads_params and reads_subs and (recursive or any(isinstance(n, (ast.While,)) for n in txt_nodes)):
        return [ok("R10j", fq, "reaches-sub-modules", "visits params and, recursively, sub_modules of every layer", f.loc)]
    if reads_params and reads_subs:
        return [ok("R10j", fq, "reaches-sub-modules", "visits params and sub_modules of every layer (one level)", f.loc)]
    return [viol("R10j", fq, "reaches-sub-modules", "reset_parameters visits l.params of the circuit's layers only: the parameter graphs of wrapped layers (sub_modules, e.g. the layer inside an evidence layer) are never allocated / re-initialised -- a wrapped layer that owns a tensor evaluates with 'tensor parameter has not been initialized'", f.loc)]


# ------------------------------------------------------------------------------------------ R10k
def r10k(ctx: Ctx) -> list[Ob]:
    """R10k -- 'every learnable tensor exactly once' for circuits with several references to one tensor.

    A pointer node has to keep the tensor it refers to as a registered child (R10a): otherwise the
    state dict of a derived circuit does not hold the tensors it evaluates and a round trip through it
    restores nothing.  ``state_dict`` then lists the target under the prefix of *every* pointer, so a
    circuit with two pointers to one tensor (``c * c``) lists it twice -- same storage, two keys --
    unless something de-duplicates: an override of ``state_dict`` / ``_save_to_state_dict`` (or a
    state-dict hook) on the pointer, the parameter graph or the circuit classes.  The rule looks for
    that mechanism; without it the clause fails for exactly those circuits.

    (Rounds 3a-3b stated this rule as "the target must *not* be registered"; a seeded change doing
    precisely that showed the remedy breaks the round trip and contradicts R10a.  The finding -- D26,
    duplicates for c * c -- stands; the demanded remedy was wrong and is corrected here.)"""
    pq = "cirkit.backend.torch.parameters.nodes.TorchPointerParameter"
    pc = ctx.repo.cls(pq)
    init = ctx.repo.lookup(pc, "__init__")
    inst = "shared-target-listed-once"
    if init is None:
        return [unres("R10k", pq, inst, "no __init__", pc.loc)]
    tgt = None
    for p in init.params:
        if p.annotation is not None and "TorchTensorParameter" in unparse(p.annotation):
            tgt = p.name
    if tgt is None:
        return [unres("R10k", pq, inst, "the constructor parameter holding the target was not identified", init.loc)]
    registers = False
    for n in walk_no_nested(init.node):
        if isinstance(n, (ast.Assign, ast.AnnAssign)):
            tgts = n.targets if isinstance(n, ast.Assign) else [n.target]
            for t in tgts:
                if is_self_attr(t) and isinstance(n.value, ast.Name) and n.value.id == tgt:
                    registers = True
        if isinstance(n, ast.Call) and isinstance(n.func, ast.Attribute) and n.func.attr in ("add_module", "register_module") and any(isinstance(a, ast.Name) and a.id == tgt for a in n.args):
            registers = True
    if not registers:
        return [note("R10k", pq, inst, "the pointer does not register its target (R10a decides that): nothing is listed twice", init.loc)]
    DEDUP = {"state_dict", "_save_to_state_dict", "get_extra_state", "_register_state_dict_hook", "register_state_dict_post_hook", "register_state_dict_pre_hook"}
    where = []
    for c in ctx.repo.classes.values():
        if not c.module.name.startswith("cirkit.backend.torch"):
            continue
        for m in c.methods:
            if m in DEDUP:
                where.append(f"{c.name}.{m}")
    for f in ctx.repo.iter_functions():
        if f.module.name.startswith("cirkit.backend.torch"):
            for n in walk_no_nested(f.node):
                if isinstance(n, ast.Call) and isinstance(n.func, ast.Attribute) and n.func.attr in DEDUP and n.func.attr.startswith(("_register", "register")):
                    where.append(f"{f.qualname}:{n.func.attr}")
    if where:
        return [ok("R10k", pq, inst, f"state-dict customisation present ({sorted(set(where))[:3]}): shared targets can be listed once", init.loc)]
    return [viol("R10k", pq, inst, "the pointer registers its target as a child (as it must, R10a) and nothing de-duplicates the state dict: a circuit with two pointers to one tensor (c * c) lists that tensor under two keys with the same storage -- 'every learnable tensor exactly once' fails for such derived circuits", init.loc)]

# ------------------------------------------------------------------------------------------ R10m
def r10m(ctx: Ctx) -> list[Ob]:
    """R10m -- the key set of the state dict does not depend on what has been evaluated.

    A *persistent* buffer (``register_buffer(name, ..)`` without ``persistent=False``) is part of the
    state dict iff it is not ``None``.  An evaluation method (forward, log_partition_function,
    integrate, sample, ..) that assigns a tensor to a registered buffer name -- a lazily filled cache
    registered as ``None`` in the constructor -- makes the dictionary of an instance that has
    answered a query differ from the dictionary of a fresh one: loading it raises "Unexpected
    key(s)", although both were compiled from the same circuit with the same flags."""
    obs: list[Ob] = []
    for c in _module_classes(ctx):
        bufs: dict[str, bool] = {}
        for k in ctx.repo.mro(c):
            for m in k.methods.values():
                for n in walk_no_nested(m.node):
                    if isinstance(n, ast.Call) and isinstance(n.func, ast.Attribute) and n.func.attr == "register_buffer" and isinstance(n.func.value, ast.Name) and n.func.value.id == "self" and n.args and isinstance(n.args[0], ast.Constant) and isinstance(n.args[0].value, str):
                        pers = next((kw.value for kw in n.keywords if kw.arg == "persistent"), n.args[2] if len(n.args) > 2 else None)
                        persistent = not (isinstance(pers, ast.Constant) and pers.value is False)
                        bufs[n.args[0].value] = bufs.get(n.args[0].value, False) or persistent
        pbufs = {b for b, p in bufs.items() if p}
        if not pbufs:
            continue
        bad = []
        for mname in EVAL_METHODS:
            m = c.methods.get(mname)
            if m is None or m.is_abstract:
                continue
            for n in walk_no_nested(m.node):
                targets: list[ast.AST] = []
                if isinstance(n, ast.Assign):
                    targets = list(n.targets)
                elif isinstance(n, (ast.AnnAssign, ast.AugAssign)):
                    targets = [n.target]
                for t in targets:
                    a = is_self_attr(t)
                    if a in pbufs:
                        bad.append((mname, a, n.lineno, m))
        if bad:
            mname, a, ln, m = bad[0]
            obs.append(viol("R10m", c.qualname, f"buffer-keys:{a}", f"{c.name}.{mname} assigns the persistent buffer `{a}` while evaluating: the buffer enters the state dict only once that method has run, so a saved dictionary of a queried instance has keys a freshly compiled instance does not expect (and vice versa)", f"{m.module.relpath}:{ln}"))
        else:
            obs.append(ok("R10m", c.qualname, "buffer-keys", f"persistent buffers {sorted(pbufs)} are not assigned by evaluation methods", c.loc))
    return obs


# ------------------------------------------------------------------------------------------ R10n
def r10n(ctx: Ctx) -> list[Ob]:
    """R10n -- a reference node reads its target when it is evaluated.

    Derived circuits share the operand's tensors *by reference*: a node that holds another parameter
    node (its constructor takes one and stores it) must evaluate it in ``forward`` -- call the stored
    module -- and must not return a tensor bound earlier (in ``reset_parameters``, in the constructor,
    lazily on first use).  A bound tensor keeps following in-place updates, which is why such a cache
    looks right, and silently stops following the operand as soon as the operand re-allocates
    (re-initialisation, ``load_state_dict(assign=True)``, ``.to()`` of a parameter)."""
    obs: list[Ob] = []
    for c in _module_classes(ctx):
        if not c.module.name.startswith("cirkit.backend.torch.parameters"):
            continue
        init = c.methods.get("__init__")
        fwd = c.methods.get("forward")
        if init is None or fwd is None:
            continue
        holders = []
        for p in init.params:
            if p.annotation is not None and any(k in unparse(p.annotation) for k in ("TorchTensorParameter", "TorchParameterNode", "TorchParameterInput")) and "Sequence" not in unparse(p.annotation) and "list" not in unparse(p.annotation):
                for n in walk_no_nested(init.node):
                    if isinstance(n, (ast.Assign, ast.AnnAssign)):
                        tgts = n.targets if isinstance(n, ast.Assign) else [n.target]
                        for t in tgts:
                            a = is_self_attr(t)
                            if a and isinstance(n.value, ast.Name) and n.value.id == p.name:
                                holders.append(a)
                    if isinstance(n, ast.Call) and isinstance(n.func, ast.Attribute) and n.func.attr == "__setattr__" and len(n.args) >= 3 and isinstance(n.args[1], ast.Constant) and isinstance(n.args[2], ast.Name) and n.args[2].id == p.name:
                        holders.append(n.args[1].value)
        if not holders:
            continue
        derefs = {m.name for m in c.methods.values() if any(isinstance(r, ast.Return) and r.value is not None and is_self_attr(r.value) in holders for r in walk_no_nested(m.node))}
        calls_target = False
        for n in walk_no_nested(fwd.node):
            if isinstance(n, ast.Call):
                if is_self_attr(n.func) in holders:
                    calls_target = True
                if isinstance(n.func, ast.Call) and isinstance(n.func.func, ast.Attribute) and isinstance(n.func.func.value, ast.Name) and n.func.func.value.id == "self" and n.func.func.attr in derefs:
                    calls_target = True
        # attributes bound from a call of the target outside forward
        cached: set[str] = set()
        for m in c.methods.values():
            if m.name == "forward":
                continue
            for n in walk_no_nested(m.node):
                if isinstance(n, (ast.Assign, ast.AnnAssign)) and n.value is not None:
                    tgts = n.targets if isinstance(n, ast.Assign) else [n.target]
                    if any(isinstance(k, ast.Call) and is_self_attr(k.func) in holders for k in ast.walk(n.value)):
                        cached |= {a for t in tgts if (a := is_self_attr(t))}
        reads_cache = sorted({x.attr for x in walk_no_nested(fwd.node) if isinstance(x, ast.Attribute) and isinstance(x.ctx, ast.Load) and isinstance(x.value, ast.Name) and x.value.id == "self" and x.attr in cached})
        inst = f"deref-at-eval:{holders[0]}"
        if reads_cache:
            obs.append(viol("R10n", c.qualname, inst, f"forward returns self.{reads_cache[0]}, bound from the target outside forward: the reference stops following the operand once the operand re-allocates its tensor (reset_parameters of the operand after the derived circuit was compiled)", fwd.loc))
        elif calls_target:
            obs.append(ok("R10n", c.qualname, inst, "forward evaluates the stored target", fwd.loc))
        else:
            obs.append(viol("R10n", c.qualname, inst, "forward does not evaluate the stored target node", fwd.loc))
    if not obs:
        # the holder may be hidden from this rule exactly because it is hidden from nn.Module (R10a reports that)
        obs.append(unres("R10n", "cirkit.backend.torch.parameters", "deref-at-eval", "no parameter node stores another node in a recognisable attribute: no verdict", ""))
    return obs
