"""R7 -- order and canonical forms over ``Scope``; symmetric predicates; node ownership.

R7b  sorted provider / order-sensitive consumers: ``Scope.__iter__`` must yield ascending ids
     (decided from what its return expression derives from, not from its text) or every consumer
     that pairs the iteration positionally with another sequence must sort locally.
R7a  no comparison-based ordering of *scopes* while ``Scope.__lt__`` is the (partial) subset order.
R7c  one-sided comparison in a predicate documented as symmetric (Engler-style contradiction:
     keys of one side that are missing on the other reject, the converse is never examined).
R7o  node ownership: a node obtained by iterating the nodes of graph X may be handed to the
     structural queries (node_inputs / node_outputs) of graph X only.
"""

from __future__ import annotations

import ast

from ..core import Ctx, Ob, ok, unres, viol
from ..flow import LocalDefs
from ..model import AnalysisError, FuncInfo, unparse, walk_no_nested

SCOPE = "cirkit.utils.scope.Scope"
SORTED_FUNCS = {"sorted"}


# ------------------------------------------------------------------------------- Scope typing
def _ann_is_scope(a: ast.AST | None) -> bool:
    if a is None:
        return False
    t = unparse(a).strip("\"'")
    return t == "Scope"


def scope_members(ctx: Ctx) -> tuple[set[str], set[str]]:
    """(names of methods/properties annotated ``-> Scope`` everywhere they are defined,
    names of attributes assigned from a ``Scope``-annotated __init__ parameter)."""

    def compute():
        good: dict[str, bool] = {}
        for f in ctx.repo.iter_functions():
            if f.cls is None or f.name.startswith("__"):
                continue
            r = f.node.returns
            if r is None:
                continue
            is_s = _ann_is_scope(r)
            good[f.name] = good.get(f.name, True) and is_s
        meths = {n for n, g in good.items() if g}
        attrs: dict[str, bool] = {}
        for c in ctx.repo.classes.values():
            init = c.methods.get("__init__")
            if init is None:
                continue
            ann = {p.name: p.annotation for p in init.params}
            for n in walk_no_nested(init.node):
                if isinstance(n, (ast.Assign, ast.AnnAssign)):
                    tgts = n.targets if isinstance(n, ast.Assign) else [n.target]
                    for t in tgts:
                        if isinstance(t, ast.Attribute) and isinstance(t.value, ast.Name) and t.value.id == "self":
                            v = n.value
                            is_s = isinstance(v, ast.Name) and _ann_is_scope(ann.get(v.id))
                            if isinstance(n, ast.AnnAssign) and _ann_is_scope(n.annotation):
                                is_s = True
                            attrs[t.attr] = attrs.get(t.attr, True) and is_s
        return meths, {n for n, g in attrs.items() if g}

    return ctx.memo("r7.scope_members", compute)


def is_scope_expr(ctx: Ctx, e: ast.AST, ld: LocalDefs | None = None, _depth: int = 0) -> bool:
    """Conservative: True only when *e* certainly denotes a ``Scope``."""
    meths, attrs = scope_members(ctx)
    if _depth > 6:
        return False
    if isinstance(e, ast.Call):
        if isinstance(e.func, ast.Name) and e.func.id == "Scope":
            return True
        if isinstance(e.func, ast.Attribute) and e.func.attr in meths:
            return True
        return False
    if isinstance(e, ast.Attribute):
        return e.attr in attrs or e.attr in meths
    if isinstance(e, ast.BinOp) and isinstance(e.op, (ast.BitAnd, ast.BitOr, ast.Sub)):
        return is_scope_expr(ctx, e.left, ld, _depth + 1) and is_scope_expr(ctx, e.right, ld, _depth + 1)
    if isinstance(e, ast.Name) and ld is not None and e.id in ld.defs:
        ds = ld.defs[e.id]
        return bool(ds) and all(is_scope_expr(ctx, d, ld, _depth + 1) for d in ds)
    return False


def returns_scope_callable(ctx: Ctx, k: ast.AST, ld: LocalDefs | None, module=None) -> bool | None:
    """Does the key function *k* return a Scope?  None = cannot tell."""
    meths, _ = scope_members(ctx)
    if isinstance(k, ast.Name) and module is not None:
        g = ctx.repo.get_function(module, k)
        if g is None:
            return None
        if g.node.returns is not None:
            return _ann_is_scope(g.node.returns)
        rets = [r for r in walk_no_nested(g.node) if isinstance(r, ast.Return) and r.value is not None]
        if rets and all(is_scope_expr(ctx, r.value, LocalDefs(g.node)) for r in rets):
            return True
        return None
    if isinstance(k, ast.Attribute):
        return k.attr in meths
    if isinstance(k, ast.Lambda):
        return is_scope_expr(ctx, k.body, LocalDefs(k))
    if isinstance(k, ast.Name):
        return None
    return None


# ------------------------------------------------------------------------------- provider facts
def scope_iter_sorted(ctx: Ctx) -> tuple[bool | None, str, str]:
    """Is ``Scope.__iter__`` provably ascending?  (verdict, why, loc)"""
    c = ctx.repo.cls(SCOPE)
    f = c.methods.get("__iter__")
    if f is None:
        raise AnalysisError("vanished anchor: Scope.__iter__")
    rets = [n for n in walk_no_nested(f.node) if isinstance(n, ast.Return) and n.value is not None]
    yields = [n for n in walk_no_nested(f.node) if isinstance(n, (ast.Yield, ast.YieldFrom))]
    ld = LocalDefs(f.node)
    init = c.methods.get("__init__")

    def storage_sorted(attr: str) -> bool | None:
        """self.<attr> assigned in __init__ from sorted(..) on every assignment?"""
        if init is None:
            return None
        vals = []
        for n in walk_no_nested(init.node):
            if isinstance(n, (ast.Assign, ast.AnnAssign)) and n.value is not None:
                tgts = n.targets if isinstance(n, ast.Assign) else [n.target]
                for t in tgts:
                    if isinstance(t, ast.Attribute) and t.attr == attr and isinstance(t.value, ast.Name) and t.value.id == "self":
                        vals.append(n.value)
        if not vals:
            return None
        return all(sorted_expr(v, LocalDefs(init.node)) is True for v in vals)

    def sorted_expr(e: ast.AST, ldd: LocalDefs, depth: int = 0) -> bool | None:
        if depth > 6:
            return None
        if isinstance(e, ast.IfExp):
            a, b = sorted_expr(e.body, ldd, depth + 1), sorted_expr(e.orelse, ldd, depth + 1)
            if a is True and b is True:
                return True
            if a is False or b is False:
                return False
            return None
        if isinstance(e, ast.Call):
            fn = e.func
            name = fn.id if isinstance(fn, ast.Name) else None
            if name == "sorted":
                kws = {k.arg: k.value for k in e.keywords}
                if "key" in kws:
                    return None
                if "reverse" in kws:
                    r = kws["reverse"]
                    return False if isinstance(r, ast.Constant) and r.value else None
                return True
            if name in ("iter", "tuple", "list") and len(e.args) == 1:
                return sorted_expr(e.args[0], ldd, depth + 1)
            if name in ("frozenset", "set", "reversed"):
                return False
            if name in ("range",):
                return True
            return None
        if isinstance(e, (ast.Tuple, ast.List)) and not e.elts:
            return True
        if isinstance(e, ast.Attribute) and isinstance(e.value, ast.Name) and e.value.id == "self":
            return storage_sorted(e.attr)
        if isinstance(e, ast.Name) and e.id in ldd.defs:
            rs = [sorted_expr(d, ldd, depth + 1) for d in ldd.defs[e.id]]
            if all(r is True for r in rs):
                return True
            if any(r is False for r in rs):
                return False
            return None
        return None

    if yields and not rets:
        # ``yield from sorted(self._set)`` / ``for v in sorted(..): yield v``
        for y in yields:
            if isinstance(y, ast.YieldFrom):
                r = sorted_expr(y.value, ld)
                if r is not True:
                    return (r, f"yield from {unparse(y.value)}", f.loc)
            else:
                return (None, "element-wise yield: order not derived", f.loc)
        return (True, "yields from a sorted sequence", f.loc)
    if not rets:
        return (None, "no return expression", f.loc)
    verdicts = [sorted_expr(r.value, ld) for r in rets]
    txt = "; ".join(unparse(r.value) for r in rets)
    if all(v is True for v in verdicts):
        return (True, f"returns {txt}", f.loc)
    if any(v is False for v in verdicts):
        return (False, f"returns {txt}: derives from an unordered set", f.loc)
    return (None, f"returns {txt}: order not derived", f.loc)


def scope_lt_is_subset(ctx: Ctx) -> bool | None:
    """True when ``Scope.__lt__`` is the strict-subset order of an (unordered) set storage."""
    c = ctx.repo.cls(SCOPE)
    f = c.methods.get("__lt__")
    if f is None:
        return None
    rets = [n for n in walk_no_nested(f.node) if isinstance(n, ast.Return) and n.value is not None]
    if len(rets) != 1:
        return None
    v = rets[0].value
    if not (isinstance(v, ast.Compare) and len(v.ops) == 1 and isinstance(v.ops[0], ast.Lt)):
        return None
    l, r = v.left, v.comparators[0]
    if not (isinstance(l, ast.Attribute) and isinstance(r, ast.Attribute) and l.attr == r.attr):
        return None
    init = c.methods.get("__init__")
    if init is None:
        return None
    for n in walk_no_nested(init.node):
        if isinstance(n, (ast.Assign, ast.AnnAssign)) and n.value is not None:
            tgts = n.targets if isinstance(n, ast.Assign) else [n.target]
            for t in tgts:
                if isinstance(t, ast.Attribute) and t.attr == l.attr:
                    calls = [x for x in ast.walk(n.value) if isinstance(x, ast.Call) and isinstance(x.func, ast.Name)]
                    if calls and all(x.func.id in ("frozenset", "set") for x in calls):
                        return True
                    return None
    return None


# ------------------------------------------------------------------------------- R7b
def _wrapped_sorted(e: ast.AST) -> bool:
    return isinstance(e, ast.Call) and isinstance(e.func, ast.Name) and e.func.id == "sorted" and not any(k.arg == "key" for k in e.keywords)


def r7b(ctx: Ctx, funcs: list[str], require: int = 1) -> list[Ob]:
    out: list[Ob] = []
    verdict, why, loc = scope_iter_sorted(ctx)
    if verdict is True:
        out.append(ok("R7b", SCOPE + ".__iter__", "provider-sorted", why, loc))
    n_sites = 0
    for fq in funcs:
        f = ctx.repo.func(fq)
        ld = LocalDefs(f.node)
        seen = 0
        for n in ast.walk(f.node):
            if not (isinstance(n, ast.Call) and isinstance(n.func, ast.Name) and n.func.id in ("zip", "enumerate")):
                continue
            args = [a for a in n.args if not isinstance(a, ast.Starred)]
            if n.func.id == "zip" and len(n.args) < 2:
                continue
            for i, a in enumerate(args):
                if _wrapped_sorted(a) and len(a.args) == 1 and is_scope_expr(ctx, a.args[0], ld):
                    seen += 1
                    n_sites += 1
                    out.append(ok("R7b", fq, f"{n.func.id}#{seen}:{unparse(a.args[0])}", "order-sensitive consumer sorts locally", f"{f.module.relpath}:{n.lineno}"))
                elif is_scope_expr(ctx, a, ld):
                    seen += 1
                    n_sites += 1
                    inst = f"{n.func.id}#{seen}:{unparse(a)}"
                    l = f"{f.module.relpath}:{n.lineno}"
                    if verdict is True:
                        out.append(ok("R7b", fq, inst, "positional pairing with a Scope iteration; the provider is sorted", l))
                    elif verdict is False:
                        out.append(
                            viol(
                                "R7b",
                                fq,
                                inst,
                                f"the iteration order of a Scope is paired positionally with another sequence ({unparse(n)[:90]}), "
                                f"but Scope.__iter__ {why}: variable labels are assigned in hash order, not increasing id order "
                                "(e.g. list(Scope([1, 8])) == [8, 1])",
                                l,
                            )
                        )
                    else:
                        out.append(unres("R7b", fq, inst, f"provider order undetermined ({why})", l))
    if n_sites < require:
        raise AnalysisError(f"vanished anchor: no positional consumer of a Scope iteration found in {funcs}")
    return out


# ------------------------------------------------------------------------------- R7a
def r7a(ctx: Ctx, funcs: list[str], require: int = 0) -> list[Ob]:
    out: list[Ob] = []
    partial = scope_lt_is_subset(ctx)
    n_sites = 0
    for fq in funcs:
        f = ctx.repo.func(fq)
        ld = LocalDefs(f.node)
        k = 0
        for n in ast.walk(f.node):
            if not isinstance(n, ast.Call):
                continue
            name = n.func.id if isinstance(n.func, ast.Name) else (n.func.attr if isinstance(n.func, ast.Attribute) else None)
            if name not in ("sorted", "sort", "min", "max"):
                continue
            if name == "sort" and not isinstance(n.func, ast.Attribute):
                continue
            kws = {kw.arg: kw.value for kw in n.keywords}
            elems_scope: bool | None = None
            how = ""
            if "key" in kws:
                r = returns_scope_callable(ctx, kws["key"], ld, f.module)
                if r is True:
                    elems_scope, how = True, f"key={unparse(kws['key'])} returns a Scope"
                elif r is False:
                    elems_scope = False
            elif n.args:
                a = n.args[0]
                cands = [a] + ([d for d in ld.defs.get(a.id, [])] if isinstance(a, ast.Name) else [])
                for c in cands:
                    if isinstance(c, (ast.GeneratorExp, ast.ListComp, ast.SetComp)):
                        cl = LocalDefs(f.node)
                        if is_scope_expr(ctx, c.elt, cl):
                            elems_scope, how = True, f"elements {unparse(c.elt)} are Scopes"
                        else:
                            elems_scope = False if elems_scope is None else elems_scope
            if elems_scope is None:
                continue
            k += 1
            inst = f"{name}#{k}"
            l = f"{f.module.relpath}:{n.lineno}"
            n_sites += 1
            if not elems_scope:
                out.append(ok("R7a", fq, inst, f"ordering by a non-Scope key: {unparse(n)[:80]}", l, nontrivial=True))
            elif partial is True:
                out.append(
                    viol(
                        "R7a",
                        fq,
                        inst,
                        f"{unparse(n)[:110]} orders scopes with Scope.__lt__, which is the strict-subset (partial) order: for pairwise "
                        "incomparable scopes Python's sort keeps the listing order, so the result is not a canonical form "
                        f"({how})",
                        l,
                    )
                )
            else:
                out.append(unres("R7a", fq, inst, "Scope.__lt__ is not recognisably the subset order: no verdict", l))
    if n_sites < require:
        out.append(unres("R7a", funcs[0], "ordering-sites", f"fewer than {require} comparison-based ordering site(s) recognised in {funcs}: canonical form not derived, no verdict"))
    return out


# ------------------------------------------------------------------------------- R7c one-sided
def r7c_onesided(ctx: Ctx, fq: str) -> list[Ob]:
    f = ctx.repo.func(fq)
    ps = [p.name for p in f.call_params]
    if len(ps) < 2:
        raise AnalysisError(f"vanished anchor: {fq} no longer takes two operands")
    a, b = ps[0], ps[1]
    ld = LocalDefs(f.node)

    def iterated(p: str) -> list[ast.AST]:
        its = []
        for n in ast.walk(f.node):
            it = n.iter if isinstance(n, (ast.For, ast.comprehension)) else None
            if it is not None and any(isinstance(x, ast.Name) and x.id == p for x in ast.walk(it)):
                its.append(it)
        return its

    def whole_compared(p: str, q: str) -> bool:
        """some expression relates the key sets / sizes of both operands"""
        for n in ast.walk(f.node):
            if isinstance(n, (ast.Compare, ast.BinOp)):
                names = {x.id for x in ast.walk(n) if isinstance(x, ast.Name)}
                if p in names and q in names:
                    return True
        return False

    def missing_rejects(p: str, q: str) -> ast.AST | None:
        """inside a loop over p: a lookup in q whose miss leads to ``return False``"""
        for n in ast.walk(f.node):
            if not isinstance(n, ast.For):
                continue
            if not any(isinstance(x, ast.Name) and x.id == p for x in ast.walk(n.iter)):
                continue
            if any(isinstance(x, ast.Name) and x.id == q for x in ast.walk(n.iter)):
                continue
            lookups: set[str] = set()
            for s in ast.walk(n):
                if isinstance(s, ast.Assign) and isinstance(s.value, ast.Call) and isinstance(s.value.func, ast.Attribute) and s.value.func.attr == "get":
                    if isinstance(s.value.func.value, ast.Name) and s.value.func.value.id == q:
                        for t in s.targets:
                            if isinstance(t, ast.Name):
                                lookups.add(t.id)
            for s in ast.walk(n):
                if not isinstance(s, ast.If):
                    continue
                t = s.test
                miss = False
                if isinstance(t, ast.Compare) and len(t.ops) == 1:
                    if isinstance(t.ops[0], ast.Is) and isinstance(t.left, ast.Name) and t.left.id in lookups and isinstance(t.comparators[0], ast.Constant) and t.comparators[0].value is None:
                        miss = True
                    if isinstance(t.ops[0], ast.NotIn) and isinstance(t.comparators[0], ast.Name) and t.comparators[0].id == q:
                        miss = True
                if miss and any(isinstance(x, ast.Return) and isinstance(x.value, ast.Constant) and x.value.value is False for x in s.body):
                    return s
        return None

    out: list[Ob] = []
    found = False
    for p, q in ((a, b), (b, a)):
        s = missing_rejects(p, q)
        if s is None:
            continue
        found = True
        if iterated(q) or whole_compared(p, q) or missing_rejects(q, p) is not None:
            out.append(ok("R7c", fq, f"one-sided:{p}->{q}", "the converse direction is examined as well", f"{f.module.relpath}:{s.lineno}"))
        else:
            out.append(
                viol(
                    "R7c",
                    fq,
                    f"one-sided:{p}->{q}",
                    f"keys of '{p}' missing from '{q}' make the predicate False, but keys of '{q}' missing from '{p}' are never examined "
                    f"('{q}' is only looked up, never iterated or compared as a whole): f({p},{q}) and f({q},{p}) can differ, although "
                    "the predicate is documented / used as symmetric",
                    f"{f.module.relpath}:{s.lineno}",
                )
            )
    if not found:
        # symmetric by construction as far as this rule can see: both operands used in the same roles?
        ra = sorted(_roles(f.node, a))
        rb = sorted(_roles(f.node, b))
        if ra == rb:
            out.append(ok("R7c", fq, "roles", f"both operands are used in the same roles {ra}", f.loc))
        else:
            out.append(unres("R7c", fq, "roles", f"operands used in different roles {ra} vs {rb}: no verdict", f.loc))
    return out


def _roles(fn: ast.AST, p: str) -> list[str]:
    parents: dict[int, ast.AST] = {}
    for n in ast.walk(fn):
        for ch in ast.iter_child_nodes(n):
            parents[id(ch)] = n
    roles = []
    for n in ast.walk(fn):
        if isinstance(n, ast.Name) and n.id == p and isinstance(n.ctx, ast.Load):
            par = parents.get(id(n))
            if isinstance(par, ast.Attribute):
                roles.append("." + par.attr)
            elif isinstance(par, ast.Subscript) and par.value is n:
                roles.append("[]")
            elif isinstance(par, ast.Call):
                roles.append("arg:" + (unparse(par.func)))
            else:
                roles.append(type(par).__name__)
    return roles


# ------------------------------------------------------------------------------- R7o ownership
GRAPH_QUERIES = {"node_inputs", "node_outputs"}


def r7_owner(ctx: Ctx, fq: str, require: int = 2) -> list[Ob]:
    """In a method relating two graphs (self, other): ``R.node_inputs(n)`` requires that n was
    obtained by iterating a node collection of the same R."""
    f = ctx.repo.func(fq)
    ld = LocalDefs(f.node)
    out: list[Ob] = []

    def canon(name: str) -> str:
        """follow plain aliases  rg2 = other  to the root name"""
        seen = set()
        while name in ld.defs and name not in seen:
            seen.add(name)
            ds = ld.defs[name]
            if len(ds) == 1 and isinstance(ds[0], ast.Name):
                name = ds[0].id
            else:
                break
        return name

    def owners(e: ast.AST, depth: int = 0) -> set[str] | None:
        """graph objects (names) whose node collections *e* is drawn from"""
        if depth > 8:
            return None
        if isinstance(e, ast.Name):
            if e.id in ld.defs:
                res: set[str] = set()
                for d in ld.defs[e.id]:
                    o = owners(d, depth + 1)
                    if o is None:
                        return None
                    res |= o
                return res
            return None
        if isinstance(e, ast.Subscript):
            # element-of marker or tuple position
            v = e.value
            if isinstance(e.slice, ast.Name) and e.slice.id == "*":
                return owners(v, depth + 1)
            if isinstance(e.slice, ast.Constant) and isinstance(e.slice.value, int):
                # position i of an element of itertools.product(A, B) / zip(A, B)
                inner = v
                if isinstance(inner, ast.Subscript) and isinstance(inner.slice, ast.Name) and inner.slice.id == "*":
                    inner = inner.value
                if isinstance(inner, ast.Call) and unparse(inner.func) in ("itertools.product", "product", "zip") and not inner.keywords:
                    i = e.slice.value
                    if i < len(inner.args):
                        return owners(inner.args[i], depth + 1)
                    return None
                return owners(v, depth + 1)
            return None
        if isinstance(e, ast.Attribute) and isinstance(e.value, ast.Name):
            # X.partition_nodes / X.region_nodes / X.nodes ...
            return {canon(e.value.id)}
        if isinstance(e, ast.Call) and isinstance(e.func, ast.Attribute) and isinstance(e.func.value, ast.Name) and e.func.attr in GRAPH_QUERIES | {"topological_ordering"}:
            return {canon(e.func.value.id)}
        if isinstance(e, ast.Call) and isinstance(e.func, ast.Name) and e.func.id in ("enumerate",) and e.args:
            return owners(e.args[0], depth + 1)
        return None

    n_sites = 0
    for n in ast.walk(f.node):
        if isinstance(n, ast.Call) and isinstance(n.func, ast.Attribute) and n.func.attr in GRAPH_QUERIES and isinstance(n.func.value, ast.Name) and len(n.args) == 1:
            recv = canon(n.func.value.id)
            o = owners(n.args[0])
            inst = f"{recv}.{n.func.attr}({unparse(n.args[0])})"
            l = f"{f.module.relpath}:{n.lineno}"
            if o is None or not o:
                out.append(unres("R7o", fq, inst, "origin of the node not derived", l))
                continue
            n_sites += 1
            if o == {recv}:
                out.append(ok("R7o", fq, inst, f"node drawn from {recv}'s own nodes", l))
            else:
                out.append(
                    viol(
                        "R7o",
                        fq,
                        inst,
                        f"the node is drawn from the nodes of {sorted(o)} but its inputs/outputs are queried on '{recv}', a different graph: "
                        "the lookup either fails or answers for an unrelated node, so the comparison does not look at the other graph's structure",
                        l,
                    )
                )
    if n_sites < require:
        raise AnalysisError(f"vanished anchor: fewer than {require} resolved graph-query sites in {fq}")
    return out
