"""CLI:  python -m sa.check Cxx [--tier quick|thorough]

exit 0  every obligation of the property discharged on the current tree (known findings printed)
exit 1  at least one violation not listed in known_findings.json  (VIOLATION line printed)
exit 2  ANALYSIS-ERROR (parse failure, vanished anchor, floor missed, internal exception)
"""

from __future__ import annotations

import argparse
import importlib
import json
import os
import sys
import time
import traceback

from .core import VERIF, Ctx, Ob, PropSpec, load_known_findings, write_evidence
from .model import AnalysisError


def evaluate(pid: str, tier: str = "quick", root: str | None = None):
    """Run the rules of one property.  Returns (spec, ctx, obligations, errors)."""
    errors: list[str] = []
    obs: list[Ob] = []
    ctx = None
    spec = None
    try:
        mod = importlib.import_module(f"sa.props.{pid}")
        spec = mod.SPEC
        ctx = Ctx(root, tier)
        obs = spec.run(ctx)
    except AnalysisError as e:
        errors.append(str(e))
    except Exception as e:  # a traceback must never look like a violation
        errors.append(f"internal error: {type(e).__name__}: {e}")
        if os.environ.get("SA_DEBUG"):
            traceback.print_exc(file=sys.stderr)
    if ctx is not None:
        try:
            from .shapes import STATS

            for k, v in STATS.items():
                if v:
                    ctx.stats["shape_interpreter." + k] = v
        except Exception:
            pass
    if spec is not None and not errors:
        # floors are counted on the domain a rule quantifies over: every site the rule matched,
        # whether it could decide it or not (an undecidable site is listed as unresolved)
        checked = [o for o in obs if o.status in ("ok", "violation", "unresolved")]
        for prefix, floor in spec.floors.items():
            n = sum(1 for o in checked if o.rule.startswith(prefix))
            if n < floor:
                errors.append(
                    f"floor missed: rule {prefix} matched {n} instance(s), expected at least {floor}"
                )
    return spec, ctx, obs, errors


def run_property(pid: str, tier: str, root: str | None = None, write: bool = True, quiet: bool = False) -> int:
    t0 = time.time()
    seed = int(os.environ.get("VERIF_SEED", "0") or 0)
    spec, ctx, obs, errors = evaluate(pid, tier, root)
    if spec is None:
        print(f"ANALYSIS-ERROR property={pid} {'; '.join(errors)}")
        return 2
    checked = [o for o in obs if o.status in ("ok", "violation")]

    known = load_known_findings()
    known_keys = {
        k["key"]: k for k in known if k.get("status") == "known" and k.get("property") == pid
    }
    violations: list[Ob] = []
    matched: list[tuple[Ob, dict]] = []
    for o in obs:
        if o.status != "violation":
            continue
        if o.key in known_keys:
            matched.append((o, known_keys[o.key]))
        else:
            violations.append(o)

    wall = time.time() - t0
    if write:
        write_evidence(pid, tier, seed, obs, spec, ctx, wall, violations, matched, errors)
    if not quiet:
        nres = sum(1 for o in obs if o.status == "unresolved")
        print(
            f"[{pid}] tier={tier} obligations={len(checked)} discharged="
            f"{sum(1 for o in obs if o.status == 'ok')} unresolved={nres} "
            f"notes={sum(1 for o in obs if o.status == 'note')} wall={wall:.2f}s"
        )
    for o, kf in matched:
        print(f"KNOWN-FINDING: property={pid} {o.key} {kf.get('what', o.msg)}")
    vpath = os.path.join(VERIF, "evidence", f"{pid}.violations.json")
    if not violations and write and os.path.exists(vpath):
        os.remove(vpath)  # a stale report of an earlier run must not outlive a clean run
    if violations:
        if write:
            with open(vpath, "w", encoding="utf-8") as f:
                json.dump([o.sample() for o in violations], f, indent=1)
        for o in violations:
            print("  " + o.line())
        print(f"VIOLATION property={pid} replay={vpath}")
        return 1
    if errors:
        for e in errors:
            print(f"ANALYSIS-ERROR property={pid} {e}")
        return 2
    return 0


def main(argv: list[str] | None = None) -> int:
    ap = argparse.ArgumentParser()
    ap.add_argument("pid")
    ap.add_argument("--tier", default=os.environ.get("VERIF_TIER") or "quick", choices=["quick", "thorough"])
    ap.add_argument("--root", default=None)
    ap.add_argument("--replay", default=None, help="print a stored violation report")
    args = ap.parse_args(argv)
    if args.replay:
        with open(args.replay, encoding="utf-8") as f:
            print(f.read())
        return 0
    rc = run_property(args.pid, args.tier, args.root)
    if rc == 0 and args.tier == "thorough":
        try:
            from . import selftest
            from .selftest import run_selftest

            rc2 = run_selftest(args.pid)
            evp = os.path.join(VERIF, "evidence", f"{args.pid}.json")
            with open(evp, encoding="utf-8") as f:
                ev = json.load(f)
            ev["coverage"]["checker_selftest"] = dict(selftest.LAST)
            with open(evp + ".tmp", "w", encoding="utf-8") as f:
                json.dump(ev, f, indent=1)
            os.replace(evp + ".tmp", evp)
            if rc2 != 0:
                print(f"ANALYSIS-ERROR property={args.pid} checker self-test failed")
                return 2
        except ImportError:
            pass
    return rc


if __name__ == "__main__":
    try:
        code = main()
    except SystemExit:
        raise
    except BaseException as e:  # pragma: no cover
        print(f"ANALYSIS-ERROR {type(e).__name__}: {e}")
        code = 2
    sys.stdout.flush()
    sys.exit(code)
