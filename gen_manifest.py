#!/venv/bin/python
"""Regenerates MANIFEST.json from sa/props/*.py (run by hand after adding a property module)."""
import importlib, json, os, sys
sys.path.insert(0, os.path.dirname(os.path.abspath(__file__)))
from sa.selftest import all_pids

NA = {
 "C12": "not claimed: the normalising-default clauses (R13b of DESIGN 3) and the shape contract of the mixing-weight parameter were not built; Z == 1 itself is numerical. See DESIGN.md section 10.",
}
checks = []
for pid in all_pids():
    spec = importlib.import_module(f"sa.props.{pid}").SPEC
    checks.append({
        "property_id": pid,
        "quick_cmd": f"/venv/bin/python -m sa.check {pid} --tier quick",
        "thorough_cmd": f"/venv/bin/python -m sa.check {pid} --tier thorough",
        "evidence_file": f"/verif/evidence/{pid}.json",
        "replay_cmd_template": f"/venv/bin/python -m sa.check {pid} --replay {{path}}",
        "engine": "sa",
        "level_claimed": {
            "category": "other",
            "text": "Static decision (AST / CFG / def-use / symbolic shape interpretation over /repo's working tree, nothing executed) of named structural clauses that are necessary conditions of the property, exhaustive over the repository's own tables (registries, class hierarchy, rule functions, call sites): " + spec.decides + " It decides those clauses, not the behaviour: " + spec.not_decided,
            "design_ref": f"DESIGN.md section 4 ({pid}), section 3 (rules), section 10 (as built)",
        },
        "level_note": "Trusted base: CPython's ast module; the Python semantics of the modelled constructs; sa/model.py name / class resolution; the rule tables in sa/rules. Unresolved constructs give no verdict (listed in the evidence); instance-count floors turn a vacuous pass into exit 2.",
        "technique": "static analysis: custom AST/CFG/def-use rules and a symbolic tensor-shape abstract interpreter, all specific to cirkit (nothing executed)",
    })
claimed = {c["property_id"] for c in checks}
man = {
 "version": 1,
 "setup_cmd": "/venv/bin/python -m compileall -q sa",
 "hooks": {
  "guard": "CIRKIT_VERIF",
  "enable": "none needed: the checks are static and read /repo's working tree; no hook was added to cirkit",
  "baseline_off_cmd": "cd /repo && /venv/bin/python -m pytest -ra -q -p no:cacheprovider --timeout=900 --continue-on-collection-errors",
  "source_commits": [],
  "add_only": True,
 },
 "engines": [{"name": "sa", "path": "/verif/sa", "serves_properties": sorted(claimed), "kind_free_text": "repository-specific static analyser (ast, hand-built CFG, def-use, storage-attribute resolution); python -m sa.check <id>"}],
 "checks": checks,
 "not_applicable": [{"property_id": p, "reason": r} for p, r in sorted(NA.items()) if p not in claimed],
 "notes": "Exit codes: 0 held / only known findings; 1 VIOLATION; 2 ANALYSIS-ERROR (vanished anchor, floor missed, parse failure). Thorough tier additionally runs the checker's both-ways self-test on scratch copies under a temp directory.",
}
json.dump(man, open(os.path.join(os.path.dirname(os.path.abspath(__file__)), "MANIFEST.json"), "w"), indent=1)
print("claimed", sorted(claimed), "n/a", [x["property_id"] for x in man["not_applicable"]])
