"""Dev-time only (NOT a registered check): differential test of the operator shape models of
sa/tensor_ops.py against real torch, by instantiating the symbols of the R4a configurations with
distinct primes, building the real parameter operator and comparing the real output shape with the
interpreter's prediction.  Run with /venv/bin/python from /verif."""
import sys, itertools
sys.path.insert(0, '/verif'); sys.path.insert(0, '/repo')
import torch, importlib
from sa.core import Ctx
from sa.rules import r4
from sa.shapes import *
from sa.dims import Dim

PR = {'F': 3, 'a0': 5, 'a1': 7, 'a2': 11, 'b0': 13, 'b1': 17, 'b2': 19, 'c0': 2, 'c1': 23, 'c2': 29, 'd0': 31, 'd1': 37, 'd2': 41}
def val(d, env):
    tot = 0
    for m, c in d.t.items():
        t = c
        for s, e in m:
            t *= env[s] ** e
        tot += t
    return tot
ctx = Ctx('/repo')
repo = ctx.repo
bad = 0; n = 0
for c in repo.subclasses(repo.cls(r4.PARAM_OP)):
    if not repo.is_concrete(c): continue
    mod = importlib.import_module(c.module.name)
    real = getattr(mod, c.name)
    init = repo.lookup(c, '__init__'); fwd = repo.lookup(c, 'forward')
    for tag, kwargs in r4._param_op_configs(ctx, c):
        it = Interp(repo); st = State(); fr = Frame(init, 0)
        try:
            built = list(it.construct(ClassV(c), [], kwargs, st, fr))
        except ShapeError:
            continue
        for obj, s2 in built:
            env = dict(PR)
            for k, v in s2.subst.items():
                pass
            def conc(v):
                if isinstance(v, IntV): return val(s2.norm(v.d), env)
                if isinstance(v, TupleV): return [conc(x) for x in v.items] if v.kind == 'list' else tuple(conc(x) for x in v.items)
                if isinstance(v, FloatV): return v.val
                raise ValueError(v)
            kw = {k: conc(v) for k, v in kwargs.items()}
            try:
                robj = real(**kw)
            except Exception as e:
                print('real ctor refuses', c.name, tag, type(e).__name__); continue
            ins_real = [torch.rand(kw['num_folds'], *sh) + 0.5 for sh in robj.in_shapes]
            try:
                rout = tuple(robj(*ins_real).shape)
            except Exception as e:
                rout = ('ERR', type(e).__name__)
            in_shapes = s2.heap[obj.oid]['_in_shapes']
            ins = [TensorV((r4.F,) + tuple(y.d for y in x.items)) for x in in_shapes.items]
            preds = set()
            try:
                for rv, s4 in it.call(fwd, ins, {}, s2, selfv=obj):
                    if isinstance(rv, TensorV):
                        preds.add(tuple(val(d, env) for d in s4.norm_shape(rv.shape)))
                    else:
                        preds.add(('UNK', repr(rv)))
            except ShapeError as e:
                preds.add(('ERR', e.msg[:40]))
            n += 1
            if rout not in preds:
                bad += 1
                print('MISMATCH', c.name, tag, 'real', rout, 'pred', preds)
print('configs', n, 'mismatches', bad)
