"""Dev-time only (NOT a registered check): differential test of the interpreter's predictions for
the torch *layers* against real torch.  Every abstract constructor configuration used by R4b/R4c/R4s
is instantiated with distinct primes for the size symbols, the real layer is built with real
parameters, and the shape each method really returns is compared with the prediction.
Run with /venv/bin/python from /verif."""
import sys, importlib, itertools
sys.path.insert(0, '/verif'); sys.path.insert(0, '/repo')
import torch
from sa.core import Ctx
from sa.rules import r4
from sa.shapes import *
from sa.dims import Dim
from cirkit.backend.torch.parameters.parameter import TorchParameter
from cirkit.backend.torch.parameters.nodes import TorchTensorParameter
from cirkit.backend.torch.semiring import SumProductSemiring

PRIMES = iter([3, 5, 7, 11, 13, 17, 19, 23, 29, 31, 37, 41, 43, 47, 53, 59, 61, 67])
ENV = {'F': 1, 'B': 3, 'N': 5, 'D': 4, 'Dv': 1}
def val(d):
    tot = 0
    for m, c in d.t.items():
        t = c
        for s, e in m:
            if s not in ENV:
                ENV[s] = next(PRIMES)
            t *= ENV[s] ** e
        tot += t
    return tot

ctx = Ctx('/repo'); repo = ctx.repo
bad = n = 0
def real_param(st, pv, folds):
    shp = st.heap[pv.pid]['shape']
    dims = [val(st.norm(x.d)) for x in shp.items]
    p = TorchTensorParameter(*dims, num_folds=folds, initializer_=lambda t: torch.nn.init.uniform_(t, 0.1, 0.9))
    g = TorchParameter.from_input(p); g.reset_parameters(); return g

def build_real(c, obj, st, folds):
    mod = importlib.import_module(c.module.name); real = getattr(mod, c.name)
    init = repo.lookup(c, '__init__')
    kw = {}
    h = st.heap[obj.oid]
    for p in init.params:
        if p.name == 'self': continue
        n_ = p.name
        if n_ == 'scope_idx': kw[n_] = torch.zeros(folds, 1, dtype=torch.long); continue
        if n_ == 'semiring': kw[n_] = SumProductSemiring; continue
        if n_ == 'num_folds': kw[n_] = folds; continue
        v = h.get(n_, h.get('_' + n_))
        if isinstance(v, ParamV): kw[n_] = real_param(st, v, folds)
        elif isinstance(v, IntV): kw[n_] = val(st.norm(v.d))
        elif isinstance(v, BoolV): kw[n_] = v.val
        elif isinstance(v, NoneV): kw[n_] = None
        elif isinstance(v, ObjV): kw[n_] = build_real(v.cls, v, st, folds)
        elif v is None and n_ in ('num_output_units',): kw[n_] = val(st.norm(h['num_output_units'].d))
    return real(**kw)

for c in repo.subclasses(repo.cls(r4.LAYER)):
    if not repo.is_concrete(c): continue
    for tag, choice in r4._layer_choices(ctx, c):
        it = Interp(repo); st = State()
        try: built = list(r4._build_layer(ctx, it, c, st, choice))
        except ShapeError: continue
        for obj, s2 in built:
            folds = ENV['F']
            try: layer = build_real(c, obj, s2, folds)
            except Exception as e:
                print('real ctor failed', c.name, tag, type(e).__name__, str(e)[:80]); continue
            h = s2.heap[obj.oid]
            ki, ko, ar = (val(s2.norm(h[k].d)) for k in ('num_input_units', 'num_output_units', 'arity'))
            for meth, kind in r4._layer_methods(ctx, c):
                fi = repo.lookup(c, meth)
                if fi is None or fi.is_abstract: continue
                if kind == 'inner': args = [torch.rand(folds, ar, ENV['B'], ki) + 0.1]; aargs = [TensorV((r4.F, Dim.const(ar), r4.B, s2.norm(h['num_input_units'].d)))]
                elif kind == 'input': args = [torch.zeros(folds, ENV['B'], ki, dtype=torch.long if 'Categorical' in c.name or 'Embedding' in c.name or 'Binomial' in c.name else torch.float)]; aargs = [TensorV((r4.F, r4.B, s2.norm(h['num_input_units'].d)))]
                elif kind == 'const': args = [ENV['B']]; aargs = [IntV(r4.B)]
                elif kind == 'partition': args = []; aargs = []
                elif kind == 'sample_input': args = [ENV['N']]; aargs = [IntV(r4.N)]
                else: args = [torch.rand(folds, ar, ki, ENV['N'], ENV['D'])]; aargs = [TensorV((r4.F, Dim.const(ar), s2.norm(h['num_input_units'].d), r4.N, r4.D))]
                try:
                    out = getattr(layer, meth)(*args)
                    out = out[0] if isinstance(out, tuple) else out
                    rout = tuple(out.shape)
                except Exception as e:
                    rout = ('ERR', type(e).__name__)
                preds = set()
                it2 = Interp(repo)
                try:
                    for rv, s3 in it2.call(fi, aargs, {}, s2.copy(), selfv=obj):
                        rv = rv.items[0] if isinstance(rv, TupleV) and rv.items else rv
                        if isinstance(rv, TensorV): preds.add(tuple(val(d) for d in s3.norm_shape(rv.shape)))
                        else: preds.add(('UNK',))
                    if not preds: preds.add(('ERR', 'refuses'))
                except ShapeError as e: preds.add(('ERR', 'ShapeError'))
                n += 1
                ok_ = rout in preds or (rout[0] == 'ERR' and any(p[0] == 'ERR' for p in preds))
                if not ok_:
                    bad += 1; print('MISMATCH', c.name, tag, meth, 'real', rout, 'pred', preds)
print('method runs', n, 'mismatches', bad)
