import itertools, random, sys, traceback
import torch, numpy as np
exec(open('fuzz1.py').read().split("def main(")[0])
from cirkit.symbolic.dtypes import DataType

class CWF:
    def __init__(self, seed): self.rs = np.random.RandomState(seed)
    def __call__(self, shape):
        a = (self.rs.randn(*shape) + 1j * self.rs.randn(*shape)).astype(np.complex64)
        return Parameter.from_input(TensorParameter(*shape, initializer=ConstantTensorInitializer(a), dtype=DataType.COMPLEX))

def main(seed0, n):
    bad = 0
    for seed in range(seed0, seed0 + n):
        rng = random.Random(seed)
        variables = sorted(rng.sample(range(0, 5), rng.randint(1, 3)))
        nout = rng.choice([1, 2])
        x = grid(variables)
        for sem in ("complex-lse-sum",):
            ref = None
            for fold, opt in itertools.product([False, True], repeat=2):
                c = rand_circuit(random.Random(seed * 7 + 1), variables, CWF(seed * 3 + 1), nout=nout)
                try:
                    comp = TorchCompiler(semiring=sem, fold=fold, optimize=opt)
                    t = comp.compile(c)
                    cj = SF.conjugate(c)
                    tj = comp.compile(cj)
                    y, yj = t(x), tj(x)
                    tojl = (lambda z: z) if sem == "sum-product" else torch.exp
                    d1 = (tojl(yj) - tojl(y).conj()).abs().max().item() / (1 + tojl(y).abs().max().item())
                    c1 = rand_circuit(random.Random(seed * 7 + 1), variables, CWF(seed * 3 + 1), nout=1)
                    sq = SF.multiply(c1, SF.conjugate(c1))
                    tsq = comp.compile(sq); t1 = comp.compile(c1)
                    ysq = tojl(tsq(x)); y1 = tojl(t1(x))
                    d2 = (ysq - y1 * y1.conj()).abs().max().item() / (1 + ysq.abs().max().item())
                    z = tojl(comp.compile(SF.integrate(sq))())
                    d3 = (z.flatten()[0] - ysq.sum()).abs().item() / (1 + ysq.sum().abs().item())
                    # conjugate of the product, and conj twice
                    ycp = tojl(comp.compile(SF.conjugate(sq))(x))
                    d4 = (ycp - ysq.conj()).abs().max().item() / (1 + ysq.abs().max().item())
                    ycc = tojl(comp.compile(SF.conjugate(cj))(x))
                    d5 = (ycc - tojl(y)).abs().max().item() / (1 + tojl(y).abs().max().item())
                    if max(d1, d2, d3, d4, d5) > 1e-3:
                        bad += 1; print(f"seed={seed} vars={variables} nout={nout} sem={sem} fold={fold} opt={opt}: conj {d1:.2g} sq {d2:.2g} int {d3:.2g} conj-prod {d4:.2g} conj-conj {d5:.2g}")
                except NotImplementedError:
                    continue
                except AssertionError:
                    continue
                except Exception as e:
                    bad += 1
                    tb = traceback.extract_tb(e.__traceback__)[-1]
                    print(f"seed={seed} vars={variables} nout={nout} sem={sem} fold={fold} opt={opt}: {type(e).__name__}: {str(e)[:150]} @ {tb.filename.split('/repo/')[-1]}:{tb.lineno}")
    print("done", seed0, n, "bad", bad)
main(int(sys.argv[1]), int(sys.argv[2]))
