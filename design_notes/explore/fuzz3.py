import itertools, random, sys, traceback
import torch, numpy as np
import cirkit.symbolic.functional as SF
from cirkit.backend.torch.compiler import TorchCompiler
from cirkit.symbolic.circuit import Circuit
from cirkit.symbolic.layers import PolynomialLayer, HadamardLayer, KroneckerLayer, SumLayer
from cirkit.symbolic.parameters import Parameter, TensorParameter
from cirkit.symbolic.initializers import ConstantTensorInitializer
from cirkit.utils.scope import Scope

class WF:
    def __init__(self, seed): self.rs = np.random.RandomState(seed)
    def __call__(self, shape):
        a = self.rs.randn(*shape).astype(np.float64) * 0.7
        return Parameter.from_input(TensorParameter(*shape, initializer=ConstantTensorInitializer(a)))

def rand_circuit(rng, variables, wf, K=2, nout=1, max_arity=3):
    layers, ins = [], {}
    def leaf(v):
        deg = rng.randint(0, 3)
        l = PolynomialLayer(Scope([v]), K, degree=deg, coeff_factory=wf); layers.append(l); return l
    def build(vs):
        if len(vs) == 1:
            h = rng.randint(1, max_arity)
            ls = [leaf(vs[0]) for _ in range(h)]
            s = SumLayer(K, K, arity=h, weight_factory=wf); layers.append(s); ins[s] = ls
            return s
        nparts = 2 if len(vs) < 3 else rng.choice([2, 3])
        vs = list(vs); rng.shuffle(vs)
        cuts = sorted(rng.sample(range(1, len(vs)), nparts - 1))
        parts = [vs[a:b] for a, b in zip([0] + cuts, cuts + [len(vs)])]
        kind = rng.choice(["hadamard", "kronecker"])
        prods = []
        for _ in range(rng.randint(1, 2)):
            subs = [build(p) for p in parts]
            if kind == "hadamard":
                p = HadamardLayer(K, arity=len(subs)); ku = K
            else:
                p = KroneckerLayer(K, arity=len(subs)); ku = K ** len(subs)
            layers.append(p); ins[p] = subs
            if ku != K:
                s = SumLayer(ku, K, weight_factory=wf); layers.append(s); ins[s] = [p]; p = s
            prods.append(p)
        s = SumLayer(K, K, arity=len(prods), weight_factory=wf); layers.append(s); ins[s] = prods
        return s
    root = build(list(variables))
    outs = []
    for _ in range(nout):
        o = SumLayer(K, 1, weight_factory=wf); layers.append(o); ins[o] = [root]; outs.append(o)
    return Circuit(layers, ins, outs)

def main(seed0, n):
    bad = 0
    torch.set_default_dtype(torch.float64)
    for seed in range(seed0, seed0 + n):
        rng = random.Random(seed)
        variables = sorted(rng.sample(range(0, 5), rng.randint(1, 3)))
        nout = rng.choice([1, 2])
        order = rng.choice([1, 1, 2])
        m = max(variables) + 1
        g = torch.Generator().manual_seed(seed)
        x = torch.randn(5, m, generator=g, dtype=torch.float64)
        for fold, opt in itertools.product([False, True], repeat=2):
            c = rand_circuit(random.Random(seed * 7 + 1), variables, WF(seed * 3 + 1), nout=nout)
            try:
                comp = TorchCompiler(semiring="sum-product", fold=fold, optimize=opt)
                t = comp.compile(c)
                dc = SF.differentiate(c, order=order)
                td = comp.compile(dc)
                yd = td(x)   # (B, O', K)
                # reference by autograd: for each output o and each variable v (sorted), d^order/dx_v
                xr = x.clone().requires_grad_(True)
                y = t(xr)  # (B, nout, 1)
                refs = []
                for o in range(nout):
                    for v in variables:
                        gcur = y[:, o, 0]
                        for _ in range(order):
                            (gcur,) = torch.autograd.grad(gcur.sum(), xr, create_graph=True, allow_unused=True)
                            gcur = gcur[:, v] if gcur is not None else torch.zeros(x.shape[0], dtype=torch.float64)
                        refs.append(gcur)
                    refs.append(y[:, o, 0])
                ref = torch.stack(refs, dim=1).unsqueeze(-1)
                if ref.shape != yd.shape:
                    bad += 1; print(f"seed={seed} vars={variables} nout={nout} order={order} fold={fold} opt={opt}: SHAPE {tuple(yd.shape)} vs ref {tuple(ref.shape)}"); continue
                d = (yd - ref).abs().max().item() / (1 + ref.abs().max().item())
                if d > 1e-8:
                    bad += 1; print(f"seed={seed} vars={variables} nout={nout} order={order} fold={fold} opt={opt}: dev {d:.3g}")
            except Exception as e:
                bad += 1
                tb = traceback.extract_tb(e.__traceback__)[-1]
                print(f"seed={seed} vars={variables} nout={nout} order={order} fold={fold} opt={opt}: {type(e).__name__}: {str(e)[:150]} @ {tb.filename.split('/repo/')[-1]}:{tb.lineno}")
    print("done", seed0, n, "bad", bad)
main(int(sys.argv[1]), int(sys.argv[2]))
