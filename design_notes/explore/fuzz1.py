import itertools, random, sys, traceback
import torch
import cirkit.symbolic.functional as SF
from cirkit.backend.torch.compiler import TorchCompiler
from cirkit.symbolic.circuit import Circuit
from cirkit.symbolic.layers import CategoricalLayer, EmbeddingLayer, HadamardLayer, KroneckerLayer, SumLayer
from cirkit.utils.scope import Scope
import numpy as np
from cirkit.symbolic.parameters import Parameter, TensorParameter, SoftmaxParameter
from cirkit.symbolic.initializers import ConstantTensorInitializer


NS = 3
class WF:
    def __init__(self, seed, positive=False):
        self.rs = np.random.RandomState(seed); self.positive = positive
    def __call__(self, shape):
        a = self.rs.randn(*shape).astype(np.float32)
        if self.positive: a = np.abs(a) + 0.1
        return Parameter.from_input(TensorParameter(*shape, initializer=ConstantTensorInitializer(a)))

def rand_circuit(rng, variables, wf, K=2, inp="embedding", prod_kinds=("hadamard", "kronecker"), nout=1, max_arity=3):
    layers, ins = [], {}
    def leaf(v):
        k = K
        l = EmbeddingLayer(Scope([v]), k, num_states=NS, weight_factory=wf) if inp == "embedding" else CategoricalLayer(Scope([v]), k, num_categories=NS, logits_factory=wf)
        layers.append(l); return l, k
    def build(vs):
        # returns (layer, units)
        if len(vs) == 1:
            # mixture of several leaves over same var (n-ary sum)
            h = rng.randint(1, max_arity)
            ls = [leaf(vs[0]) for _ in range(h)]
            s = SumLayer(K, K, arity=h, weight_factory=wf); layers.append(s); ins[s] = [l for l, _ in ls]
            return s, K
        # split vs into 2 or 3 parts
        nparts = 2 if len(vs) < 3 else rng.choice([2, 3])
        vs = list(vs); rng.shuffle(vs)
        cuts = sorted(rng.sample(range(1, len(vs)), nparts - 1))
        parts = [vs[a:b] for a, b in zip([0] + cuts, cuts + [len(vs)])]
        nmix = rng.randint(1, 2)
        prods = []
        for _ in range(nmix):
            subs = [build(p) for p in parts]
            kind = rng.choice(prod_kinds)
            if kind == "hadamard":
                p = HadamardLayer(K, arity=len(subs)); ku = K
            else:
                p = KroneckerLayer(K, arity=len(subs)); ku = K ** len(subs)
            layers.append(p); ins[p] = [l for l, _ in subs]
            if ku != K:
                s = SumLayer(ku, K, weight_factory=wf); layers.append(s); ins[s] = [p]; p = s
            prods.append(p)
        s = SumLayer(K, K, arity=len(prods), weight_factory=wf); layers.append(s); ins[s] = prods
        return s, K
    root, _ = build(list(variables))
    outs = []
    for _ in range(nout):
        o = SumLayer(K, 1, weight_factory=wf); layers.append(o); ins[o] = [root]; outs.append(o)
    return Circuit(layers, ins, outs)

def grid(variables):
    m = max(variables) + 1
    rows = []
    for vals in itertools.product(range(NS), repeat=len(variables)):
        r = [0] * m
        for v, a in zip(variables, vals): r[v] = a
        rows.append(r)
    return torch.tensor(rows)

def main(seed0, n):
    bad = 0
    for seed in range(seed0, seed0 + n):
        rng = random.Random(seed)
        variables = sorted(rng.sample(range(0, 5), rng.randint(1, 3)))
        nout = rng.choice([1, 1, 2])
        x = grid(variables)
        for sem in ("sum-product", "lse-sum"):
            ref = None
            for fold, opt in itertools.product([False, True], repeat=2):
                torch.manual_seed(seed)
                rng2 = random.Random(seed)
                rng2.sample(range(0, 5), 1)
                pos = sem != 'sum-product'
                c1 = rand_circuit(random.Random(seed * 7 + 1), variables, WF(seed * 3 + 1, pos), nout=nout, inp='embedding' if not pos else 'categorical')
                c2 = rand_circuit(random.Random(seed * 7 + 1), variables, WF(seed * 3 + 2, pos), nout=1, inp='embedding' if not pos else 'categorical')
                try:
                    comp = TorchCompiler(semiring=sem, fold=fold, optimize=opt)
                    t1, t2 = comp.compile(c1), comp.compile(c2)
                    y1, y2 = t1(x), t2(x)
                    tp = comp.compile(SF.multiply(c1, c2))
                    yp = tp(x)
                    if sem == "sum-product":
                        want = (y1[:, :, None] * y2[:, None, :]).reshape(yp.shape) if yp.shape != y1.shape else y1 * y2
                    else:
                        want = (y1[:, :, None] + y2[:, None, :]).reshape(yp.shape) if yp.shape != y1.shape else y1 + y2
                    d = (yp - want).abs().max().item()
                    ti = comp.compile(SF.integrate(SF.multiply(c1, c2)))
                    zi = ti()
                    zb = yp.sum(0, keepdim=True) if sem == "sum-product" else torch.logsumexp(yp, 0, keepdim=True)
                    dz = (zi - zb).abs().max().item() / (1 + zb.abs().max().item())
                    res = (y1.detach(), yp.detach(), zi.detach())
                    if ref is None: ref = res
                    dr = max((a - b).abs().max().item() / (1 + b.abs().max().item()) for a, b in zip(res, ref))
                    if d > 1e-3 * (1 + want.abs().max().item()) or dz > 1e-3 or dr > 1e-3 or any(torch.isnan(a).any() for a in res):
                        bad += 1
                        print(f"seed={seed} vars={variables} nout={nout} sem={sem} fold={fold} opt={opt}: prod dev {d:.3g} integ dev {dz:.3g} flags dev {dr:.3g}")
                except (NotImplementedError,) as e:
                    continue
                except Exception as e:
                    bad += 1
                    tb = traceback.extract_tb(e.__traceback__)[-1]
                    print(f"seed={seed} vars={variables} nout={nout} sem={sem} fold={fold} opt={opt}: {type(e).__name__}: {str(e)[:120]} @ {tb.filename.split('/repo/')[-1]}:{tb.lineno}")
    print("done", seed0, n, "bad", bad)
main(int(sys.argv[1]), int(sys.argv[2]))
