import itertools, random, sys, traceback
import torch, numpy as np
sys.argv_backup = sys.argv
exec(open('fuzz1.py').read().split("def main(")[0])

def main(seed0, n):
    bad = 0
    for seed in range(seed0, seed0 + n):
        rng = random.Random(seed)
        variables = sorted(rng.sample(range(0, 5), rng.randint(2, 3)))
        nout = rng.choice([1, 2])
        obs_vars = sorted(rng.sample(variables, rng.randint(1, len(variables) - 1)))
        obs = {v: rng.randrange(NS) for v in obs_vars}
        rest = [v for v in variables if v not in obs]
        for sem in ("sum-product", "lse-sum"):
            ref = None
            for fold, opt in itertools.product([False, True], repeat=2):
                pos = sem != 'sum-product'
                c1 = rand_circuit(random.Random(seed * 7 + 1), variables, WF(seed * 3 + 1, pos), nout=nout, inp='embedding' if not pos else 'categorical', prod_kinds=("hadamard",))
                c2 = rand_circuit(random.Random(seed * 7 + 3), variables, WF(seed * 3 + 2, pos), nout=1, inp='embedding' if not pos else 'categorical', prod_kinds=("hadamard",))
                try:
                    comp = TorchCompiler(semiring=sem, fold=fold, optimize=opt)
                    t1, t2 = comp.compile(c1), comp.compile(c2)
                    xr = grid(rest)  # columns up to max(rest)
                    m = max(variables) + 1
                    xfull = torch.zeros(xr.shape[0], m, dtype=torch.long)
                    xfull[:, :xr.shape[1]] = xr
                    for v, a in obs.items(): xfull[:, v] = a
                    e1 = SF.evidence(c1, obs=obs)
                    te = comp.compile(e1)
                    assert set(e1.scope) == set(rest), (e1.scope, rest)
                    xe = torch.zeros(xr.shape[0], max(rest) + 1, dtype=torch.long); xe[:, :] = xfull[:, : max(rest) + 1]
                    ye = te(xe)
                    d1 = (ye - t1(xfull)).abs().max().item()
                    cc = SF.concatenate([c1, c2, c1])
                    tc = comp.compile(cc)
                    yc = tc(xfull)
                    want = torch.cat([t1(xfull), t2(xfull), t1(xfull)], dim=1)
                    d2 = (yc - want).abs().max().item()
                    ee = SF.concatenate([e1, SF.evidence(c2, obs=obs)])
                    tee = comp.compile(ee)
                    d3 = (tee(xe) - torch.cat([t1(xfull), t2(xfull)], dim=1)).abs().max().item()
                    # integrate the evidence circuit over the rest == marginal
                    ti = comp.compile(SF.integrate(e1))
                    zb = ye.sum(0, keepdim=True) if sem == 'sum-product' else torch.logsumexp(ye, 0, keepdim=True)
                    d4 = (ti() - zb).abs().max().item() / (1 + zb.abs().max().item())
                    if max(d1, d2, d3, d4) > 1e-4:
                        bad += 1
                        print(f"seed={seed} vars={variables} obs={obs} nout={nout} sem={sem} fold={fold} opt={opt}: evid {d1:.3g} concat {d2:.3g} concat-evid {d3:.3g} integ-evid {d4:.3g}")
                except (NotImplementedError,) as e:
                    continue
                except Exception as e:
                    bad += 1
                    tb = traceback.extract_tb(e.__traceback__)[-1]
                    print(f"seed={seed} vars={variables} obs={obs} nout={nout} sem={sem} fold={fold} opt={opt}: {type(e).__name__}: {str(e)[:150]} @ {tb.filename.split('/repo/')[-1]}:{tb.lineno}")
    print("done", seed0, n, "bad", bad)
main(int(sys.argv[1]), int(sys.argv[2]))
