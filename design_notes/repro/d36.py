"""D36 (before the repair): composing parameter graphs that share a (non-input) sub-graph with
Parameter.from_binary / from_nary duplicates the shared nodes in Parameter.nodes; the duplicated
entries inflate the out-degree bookkeeping and topological_ordering() raises a spurious
'The graph has at least one cycle', so the composite graph can neither be traversed nor compiled.
Expected: log(exp(t)) + exp(t) is a valid DAG and evaluates to t + exp(t)."""
import torch
from cirkit.backend.torch.compiler import TorchCompiler
from cirkit.symbolic.initializers import NormalInitializer
from cirkit.symbolic.parameters import ExpParameter, LogParameter, Parameter, SumParameter, TensorParameter

t = TensorParameter(2, 3, initializer=NormalInitializer())
q = Parameter.from_unary(ExpParameter(t.shape), t)  # q = exp(t)
lq = Parameter.from_unary(LogParameter(q.shape), q)  # log(q)
p = Parameter.from_binary(SumParameter(q.shape, q.shape), lq, q)  # log(q) + q, q is shared
print("nodes:", [type(n).__name__ for n in p.nodes])  # TensorParameter and ExpParameter appear twice
try:
    tp = TorchCompiler().compile_parameter(p)
    tp.reset_parameters()
    print("compiled, output shape", tuple(tp().shape))
except ValueError as e:
    print("BUG:", type(e).__name__, e)

# Even simpler: the same parameter passed as both operands of a binary node
from cirkit.symbolic.parameters import HadamardParameter
p2 = Parameter.from_binary(HadamardParameter(q.shape, q.shape), q, q)  # exp(t) * exp(t)
try:
    list(p2.topological_ordering())
    print("ok")
except ValueError as e:
    print("BUG (same operand twice):", e)

# value check: log(exp(t)) + exp(t) == t + exp(t), folded or not
tt = [n for n in tp.nodes if type(n).__name__ == "TorchTensorParameter"][0]
val = tt()
print("max deviation from t + exp(t):", float((tp() - (val + torch.exp(val))).abs().max()))
