"""D31: multiply() of circuits whose sum layers have arity > 1 computes a wrong function.
The Kronecker product of the two weights lays its columns out as (a1, i1, a2, i2) while the inputs of
the product sum layer are the products of the pairs (a1, a2) with units (i1, i2)."""
import itertools, torch
import cirkit.symbolic.functional as SF
from cirkit.backend.torch.compiler import TorchCompiler
from cirkit.symbolic.circuit import Circuit
from cirkit.symbolic.layers import EmbeddingLayer, SumLayer, HadamardLayer
from cirkit.utils.scope import Scope


def mk(h, k, ko=1):
    ins = [EmbeddingLayer(Scope([0]), k, num_states=3) for _ in range(h)]
    s = SumLayer(k, ko, arity=h)
    return Circuit([*ins, s], {s: ins}, [s])


def mk2(h, k):
    # two variables, product of two n-ary sums, then a sum
    a = [EmbeddingLayer(Scope([0]), k, num_states=3) for _ in range(h)]
    b = [EmbeddingLayer(Scope([1]), k, num_states=3) for _ in range(h)]
    sa, sb = SumLayer(k, k, arity=h), SumLayer(k, k, arity=h)
    p = HadamardLayer(k, arity=2)
    s = SumLayer(k, 1)
    return Circuit([*a, *b, sa, sb, p, s], {sa: a, sb: b, p: [sa, sb], s: [p]}, [s])


worst = 0.0
for (h1, k1), (h2, k2) in itertools.product([(1, 2), (2, 1), (2, 2), (3, 2)], repeat=2):
    for fold, optimize in itertools.product([False, True], repeat=2):
        torch.manual_seed(0)
        c1, c2 = mk(h1, k1), mk(h2, k2)
        comp = TorchCompiler(semiring="sum-product", fold=fold, optimize=optimize)
        t1, t2 = comp.compile(c1), comp.compile(c2)
        tp = comp.compile(SF.multiply(c1, c2))
        x = torch.tensor([[0], [1], [2]])
        d = (tp(x) - t1(x) * t2(x)).abs().max().item()
        worst = max(worst, d)
        if d > 1e-5:
            print(f"arity/units ({h1},{k1}) x ({h2},{k2}) fold={fold} optimize={optimize}: |prod - c1*c2| = {d:.3g}")
for fold, optimize in itertools.product([False, True], repeat=2):
    torch.manual_seed(1)
    c1, c2 = mk2(2, 2), mk2(3, 2)
    comp = TorchCompiler(semiring="sum-product", fold=fold, optimize=optimize)
    t1, t2 = comp.compile(c1), comp.compile(c2)
    tp = comp.compile(SF.multiply(c1, c2))
    x = torch.tensor(list(itertools.product(range(3), repeat=2)))
    d = (tp(x) - t1(x) * t2(x)).abs().max().item()
    worst = max(worst, d)
    if d > 1e-5:
        print(f"two-variable circuits fold={fold} optimize={optimize}: |prod - c1*c2| = {d:.3g}")
print("worst deviation", worst)
