# D9 (1), D24 (2) and D25 (3): three behaviours of the unchanged multiply found by a sub-agent;
# (1) = known finding L1, (2) = known finding R14g, (3) fixed by the reshape in TorchTensorDotLayer.forward.
import itertools, torch
import cirkit.symbolic.functional as SF
from cirkit.pipeline import PipelineContext
from cirkit.symbolic.circuit import Circuit
from cirkit.symbolic.layers import CategoricalLayer, HadamardLayer, KroneckerLayer, SumLayer
from cirkit.utils.scope import Scope

X = torch.tensor(list(itertools.product([0, 1], repeat=2)))

def run(name, sc1, sc2, **flags):
    torch.manual_seed(0)
    ctx = PipelineContext(backend="torch", semiring="sum-product", **flags)
    with ctx:
        sc = SF.multiply(sc1, sc2)
        t1, t2, t = ctx.compile(sc1), ctx.compile(sc2), ctx.compile(sc)
    try:
        y = t(X)
    except Exception as e:
        print(name, "-> evaluation raises", type(e).__name__); return
    y1, y2 = t1(X), t2(X)
    ref = (y1.unsqueeze(-1) * y2.unsqueeze(-2)).flatten(-2)
    print(name, "-> max abs error", (ref - y).abs().max().item(), "scale", ref.abs().max().item())

# (1) sum layers of arity 2 in both operands
def c_arity2(K):
    ins = [CategoricalLayer(Scope([v]), K, num_categories=2) for v in (0, 1, 0, 1)]
    p1, p2 = HadamardLayer(K, arity=2), HadamardLayer(K, arity=2)
    s = SumLayer(K, 1, arity=2)
    return Circuit(ins + [p1, p2, s], {p1: ins[:2], p2: ins[2:], s: [p1, p2]}, [s])
run("(1) arity-2 sums", c_arity2(2), c_arity2(2), fold=False, optimize=False)

# (2) Kronecker layers whose inputs are not listed in increasing scope order
def c_kron(K):
    i0, i1 = CategoricalLayer(Scope([0]), K, num_categories=2), CategoricalLayer(Scope([1]), K, num_categories=2)
    p = KroneckerLayer(K, arity=2); s = SumLayer(K * K, 1)
    return Circuit([i0, i1, p, s], {p: [i1, i0], s: [p]}, [s])
run("(2) Kronecker inputs [x1, x0]", c_kron(2), c_kron(2), fold=False, optimize=False)

# (3) operand with one unit but several outputs units, optimize=True
def c_had(K, O):
    i0, i1 = CategoricalLayer(Scope([0]), K, num_categories=2), CategoricalLayer(Scope([1]), K, num_categories=2)
    p = HadamardLayer(K, arity=2); s = SumLayer(K, O)
    return Circuit([i0, i1, p, s], {p: [i0, i1], s: [p]}, [s])
run("(3) K1=1, 2 output units, optimize", c_had(1, 2), c_had(4, 3), fold=False, optimize=True)
run("(3') same, optimize=False", c_had(1, 2), c_had(4, 3), fold=False, optimize=False)
