# D23: multiply of two multi-output circuits over the same overall scope whose outputs have
# overlapping but different scopes ({0,1} and {1,2}): are_compatible is True and (before the fix)
# multiply returned a 4-output circuit that is NOT decomposable (the cross pairs were multiplied
# input by input through Kronecker layers over disjoint sub-scopes and re-joined by a Hadamard layer
# with overlapping inputs).  After the fix multiply refuses (NotImplementedError).
import cirkit.symbolic.functional as SF
from cirkit.symbolic.circuit import Circuit, are_compatible
from cirkit.symbolic.layers import GaussianLayer, HadamardLayer, SumLayer
from cirkit.utils.scope import Scope

def two_out(n=2):
    g = {v: GaussianLayer(Scope([v]), n) for v in range(3)}
    pA = HadamardLayer(n, arity=2); sA = SumLayer(n, n)
    pB = HadamardLayer(n, arity=2); sB = SumLayer(n, n)
    return Circuit(list(g.values()) + [pA, sA, pB, sB], {pA: [g[0], g[1]], sA: [pA], pB: [g[1], g[2]], sB: [pB]}, [sA, sB])

c1, c2 = two_out(), two_out()
print("compatible:", are_compatible(c1, c2))
try:
    p = SF.multiply(c1, c2)
    print("returned:", p.properties, len(p.outputs), "outputs")
except NotImplementedError as e:
    print("refused:", e)
