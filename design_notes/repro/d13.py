from cirkit.templates.region_graph import *
a=LinearTree(4, ordering=[0,1,2,3])
b=LinearTree(4, ordering=[3,2,1,0])
c=RandomBinaryTree(4, seed=1)
q=QuadTree((1,2,2),num_patch_splits=2)
print("linear vs reversed-linear:", a.is_compatible(b), b.is_compatible(a))
print("linear vs rbt:", a.is_compatible(c), c.is_compatible(a))
print("self:", a.is_compatible(a), c.is_compatible(c))
print("quadtree vs linear:", q.is_compatible(a), a.is_compatible(q))
