import torch, numpy as np, itertools
from cirkit.utils.scope import Scope
from cirkit.symbolic.layers import *
from cirkit.symbolic.parameters import *
from cirkit.symbolic.initializers import *
from cirkit.symbolic.circuit import Circuit
import cirkit.symbolic.functional as SF
from cirkit.pipeline import PipelineContext
from cirkit.backend.torch.queries import IntegrateQuery
torch.manual_seed(0)
# D4: logits categorical + IntegrateQuery folded with B==F and B != F
def lf(shape): return Parameter.from_input(TensorParameter(*shape, initializer=NormalInitializer()))
ins=[CategoricalLayer(Scope([v]),2,num_categories=3,logits_factory=lf) for v in range(3)]
p=HadamardLayer(2,arity=3); s=SumLayer(2,1)
sc=Circuit(ins+[p,s],{p:ins,s:[p]},[s])
for fold in (False,True):
    ctx=PipelineContext(backend='torch',semiring='sum-product',fold=fold,optimize=False)
    with ctx:
        c=ctx.compile(sc)
        ic=ctx.compile(SF.integrate(sc,Scope([1])))
    q=IntegrateQuery(c)
    for B in (3,2):
        x=torch.randint(0,3,(B,3))
        try:
            r=q(x,integrate_vars=Scope([1]))
            ref=ic(x)
            print("D4 fold",fold,"B",B,"match",torch.allclose(r,ref,atol=1e-5), r.flatten().tolist(), ref.flatten().tolist())
        except Exception as e:
            print("D4 fold",fold,"B",B,"EXC",type(e).__name__,str(e)[:100])
