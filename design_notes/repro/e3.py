import torch, numpy as np, itertools, functools
from cirkit.utils.scope import Scope
from cirkit.symbolic.layers import *
from cirkit.symbolic.parameters import *
from cirkit.symbolic.initializers import *
from cirkit.symbolic.circuit import Circuit
import cirkit.symbolic.functional as SF
from cirkit.pipeline import PipelineContext
from cirkit.templates.region_graph import *
from cirkit.templates.utils import *
torch.manual_seed(0)
def lf(shape): return Parameter.from_input(TensorParameter(*shape, initializer=NormalInitializer()))
def ef(shape): return Parameter.from_unary(ExpParameter(shape),TensorParameter(*shape, initializer=NormalInitializer()))
def mk(kind, nv=3, K=2, two_out=False):
    if kind=='cat_logits': ins=[CategoricalLayer(Scope([v]),K,num_categories=3,logits_factory=lf) for v in range(nv)]
    if kind=='cat_probs': ins=[CategoricalLayer(Scope([v]),K,num_categories=3) for v in range(nv)]
    if kind=='emb': ins=[EmbeddingLayer(Scope([v]),K,num_states=3,weight_factory=ef) for v in range(nv)]
    wf=parameterization_to_factory(Parameterization(activation='softmax'))
    p1=HadamardLayer(K,arity=2); s1=SumLayer(K,K,weight_factory=wf); p2=HadamardLayer(K,arity=2); s2=SumLayer(K,2 if two_out else 1,weight_factory=wf)
    layers=ins+[p1,s1,p2,s2]; inl={p1:ins[:2],s1:[p1],p2:[s1,ins[2]],s2:[p2]}
    outs=[s2]
    if two_out:
        s3=SumLayer(K,2,weight_factory=wf); layers.append(s3); inl[s3]=[p2]; outs=[s2,s3]
    return Circuit(layers,inl,outs)
xs_all=torch.tensor(list(itertools.product(range(3),repeat=3)))
for kind in ('cat_logits','cat_probs','emb'):
  for two_out in (False,True):
    sc=mk(kind,two_out=two_out)
    for Z in ([0],[1],[2],[0,1],[0,2],[1,2],[0,1,2]):
      for sem in ('sum-product','lse-sum'):
        for fold,opt in itertools.product((False,True),repeat=2):
            isc=SF.integrate(sc,Scope(Z))
            # nested
            ctx=PipelineContext(backend='torch',semiring=sem,fold=fold,optimize=opt)
            with ctx: c=ctx.compile(sc); ic=ctx.compile(isc)
            full=c(xs_all); 
            if sem=='lse-sum': full=full.exp()
            Y=[v for v in range(3) if v not in Z]
            ok=True
            for y in itertools.product(range(3),repeat=len(Y)):
                mask=torch.ones(len(xs_all),dtype=torch.bool)
                for yi,v in zip(y,Y): mask&=xs_all[:,v]==yi
                ref=full[mask].sum(0)
                x=torch.zeros(1,3,dtype=torch.long)
                for yi,v in zip(y,Y): x[0,v]=yi
                got=ic(x) if len(Y)>0 else ic()
                if sem=='lse-sum': got=got.exp()
                got=got.reshape(ref.shape)
                if not torch.allclose(got,ref,rtol=1e-4,atol=1e-5): ok=False
            if not ok: print("C03 FAIL",kind,two_out,Z,sem,fold,opt)
print("C03 scan done")
