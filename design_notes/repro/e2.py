import torch, numpy as np, itertools, functools
from cirkit.utils.scope import Scope
from cirkit.symbolic.layers import *
from cirkit.symbolic.parameters import *
from cirkit.symbolic.initializers import *
from cirkit.symbolic.circuit import Circuit
import cirkit.symbolic.functional as SF
from cirkit.pipeline import PipelineContext
from cirkit.backend.torch.queries import SamplingQuery, IntegrateQuery
from cirkit.templates import data_modalities, pgms, tensor_factorizations
from cirkit.templates.region_graph import *
from cirkit.templates.utils import *
torch.manual_seed(0)
# D12 sampling from tucker circuits
rg=RandomBinaryTree(4)
for sp in ('cp','cp-t','tucker'):
  for opt in (False,True):
    for fold in (False,True):
        sc=rg.build_circuit(input_factory=name_to_input_layer_factory('categorical',num_categories=2),sum_product=sp,
            sum_weight_factory=parameterization_to_factory(Parameterization(activation='softmax')),num_input_units=2,num_sum_units=2)
        ctx=PipelineContext(backend='torch',semiring='sum-product',fold=fold,optimize=opt)
        with ctx: c=ctx.compile(sc)
        try:
            s,_=SamplingQuery(c)(1000)
            # compare freq
            xs=torch.tensor(list(itertools.product([0,1],repeat=4)))
            p=c(xs)[:,0,0]
            idx=(s.long()*torch.tensor([8,4,2,1])).sum(1)
            freq=torch.bincount(idx,minlength=16)/1000.
            print("D12",sp,opt,fold,"Z=%.4f"%p.sum().item(),"maxdiff %.3f"%(freq-p).abs().max().item())
        except Exception as e:
            print("D12",sp,opt,fold,"EXC",type(e).__name__,str(e)[:80])
