# D26: 'the dictionary contains every learnable tensor exactly once' does not hold for derived
# circuits: a TorchPointerParameter stores its target with a plain attribute assignment, so nn.Module
# registers the referenced tensor as a child of every pointer -- the state dict of c*c lists each
# tensor of c once per pointer (same storage under several keys).
import torch
import cirkit.symbolic.functional as SF
from cirkit.pipeline import PipelineContext
from cirkit.symbolic.circuit import Circuit
from cirkit.symbolic.layers import CategoricalLayer, HadamardLayer, SumLayer
from cirkit.utils.scope import Scope

i0, i1 = CategoricalLayer(Scope([0]), 2, num_categories=2), CategoricalLayer(Scope([1]), 2, num_categories=2)
p = HadamardLayer(2, arity=2); s = SumLayer(2, 1)
sc = Circuit([i0, i1, p, s], {p: [i0, i1], s: [p]}, [s])
with PipelineContext(backend="torch", fold=False, optimize=False) as ctx:
    c = ctx.compile(sc)
    sq = ctx.compile(SF.multiply(sc, sc))
sd = sq.state_dict()
by_storage = {}
for k, v in sd.items():
    by_storage.setdefault(v.data_ptr(), []).append(k)
dups = {k: v for k, v in by_storage.items() if len(v) > 1}
print("keys:", len(sd), "distinct storages:", len(by_storage), "storages listed more than once:", len(dups))
