"""D35: IntegrateQuery given a boolean mask tensor accepted (and silently ignored) a request to
marginalise a variable that is not in the circuit's scope (an id in a gap of the scope), whereas the
same request as a Scope raises ValueError."""
import torch
from cirkit.backend.torch.compiler import TorchCompiler
from cirkit.backend.torch.queries import IntegrateQuery
from cirkit.symbolic.circuit import Circuit
from cirkit.symbolic.layers import CategoricalLayer, HadamardLayer, SumLayer
from cirkit.utils.scope import Scope

a, b = CategoricalLayer(Scope([0]), 2, num_categories=3), CategoricalLayer(Scope([2]), 2, num_categories=3)
p = HadamardLayer(2, arity=2)
s = SumLayer(2, 1)
sc = Circuit([a, b, p, s], {p: [a, b], s: [p]}, [s])
tc = TorchCompiler(semiring="sum-product").compile(sc)
q = IntegrateQuery(tc)
x = torch.tensor([[1, 0, 2]])
for label, iv in [("mask [F, T, F] (variable 1 is not in the scope {0, 2})", torch.tensor([[False, True, False]])), ("Scope([1])", Scope([1])), ("mask [T, F, F]", torch.tensor([[True, False, False]]))]:
    try:
        print(label, "->", q(x, integrate_vars=iv).flatten().tolist())
    except ValueError as e:
        print(label, "-> ValueError:", str(e)[:80])
