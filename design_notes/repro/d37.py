"""D37 (known finding): a sum-layer weight W = A (x) A whose two Kronecker operands are the SAME symbolic
TensorParameter node (tied factors) is compiled, with fold=True and optimize=True, into two
independent torch tensors (40 scalars instead of 32 below): the tensor-dot shattering splits the
weight graph into two graphs that share the leaf, and folding each of them allocates its own folded
copy of the leaf. The compiled circuit then computes A1 (x) A2 for two independently initialised
A1, A2, i.e. not the function denoted by the symbolic circuit under the valuation registered in
the compiler state. The other three flag combinations are exact.

Run: cd $WT && PYTHONPATH=$WT /venv/bin/python finding_tied_kronecker_fold_optimize.py
"""
import itertools, numpy as np, torch
from cirkit.backend.torch.compiler import TorchCompiler
from cirkit.symbolic.circuit import Circuit
from cirkit.symbolic.layers import EmbeddingLayer, HadamardLayer, SumLayer
from cirkit.symbolic.parameters import *
from cirkit.symbolic.initializers import NormalInitializer
from cirkit.utils.scope import Scope
K = 2
def build():
    ws = []
    for _ in range(2):
        t = TensorParameter(K, K, initializer=NormalInitializer())
        op = KroneckerParameter((K, K), (K, K)); ws.append(Parameter([t, op], {op: [t, t]}, [op]))
    e = [EmbeddingLayer(Scope([v]), K * K, num_states=3) for v in range(2)]
    s = [SumLayer(K * K, K * K, weight=w) for w in ws]
    h = HadamardLayer(K * K, 2)
    return Circuit([*e, *s, h], {s[0]: [e[0]], s[1]: [e[1]], h: s}, [h])
x = torch.tensor(list(itertools.product(range(3), repeat=2)))
for fold, opt in itertools.product([False, True], repeat=2):
    torch.manual_seed(0)
    sc = build()
    c = TorchCompiler(fold=fold, optimize=opt)
    tc = c.compile(sc)
    n = sum(p.numel() for p in tc.parameters())
    # reference: evaluate with kron(A, A) of the registered compiled tensors
    vals = []
    for sl in sc.sum_layers:
        (t,) = [nd for nd in sl.weight.nodes if isinstance(nd, TensorParameter)]
        cp, fi = c.state.retrieve_compiled_parameter(t)
        vals.append(cp()[fi].detach())
    embs = []
    for sl in sc.input_layers:
        (t,) = list(sl.weight.nodes)
        cp, fi = c.state.retrieve_compiled_parameter(t)
        embs.append(cp()[fi].detach())
    exp = 1
    for i in range(2):
        W = torch.kron(vals[i], vals[i])
        exp = exp * (embs[i][:, x[:, i]].T @ W.T)
    y = tc(x)[:, 0]
    print(fold, opt, "num params", n, "max err", float((y - exp).abs().max()))
