import numpy as np, json, io, tempfile, os
from cirkit.templates.region_graph.algorithms.utils import tree2rg
from cirkit.templates.region_graph import RegionGraph
for tree in ([1,2,-1], [-1,0,1], [2,2,-1], [1,-1,1,2]):
    for dt in (np.int64, np.int32):
        try:
            rg = tree2rg(np.array(tree, dtype=dt))
            fn = os.path.join(tempfile.mkdtemp(), "rg.json")
            rg.dump(fn)
            rg2 = RegionGraph.load(fn)
            print(tree, dt.__name__, "ok", sorted(map(lambda n: tuple(n.scope), rg2.nodes))[:3])
        except Exception as e:
            print(tree, dt.__name__, "EXC", type(e).__name__, str(e)[:80])
