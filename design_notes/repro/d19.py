# D19: a symbolic circuit that shares one tensor between two of its own layers (probs=i0.probs.ref())
# compiles and evaluates unfolded, but under fold=True the pointer keeps referring to the unfolded
# tensor that folding replaced (never initialised): ValueError at evaluation.
import torch
from cirkit.symbolic.parameters import TensorParameter, Parameter, SoftmaxParameter
from cirkit.symbolic.initializers import NormalInitializer
from cirkit.symbolic.layers import SumLayer, CategoricalLayer, HadamardLayer
from cirkit.symbolic.circuit import Circuit
from cirkit.utils.scope import Scope
from cirkit.pipeline import PipelineContext

def build():
    i0 = CategoricalLayer(Scope([0]), 3, num_categories=2)
    i1 = CategoricalLayer(Scope([1]), 3, num_categories=2, probs=i0.probs.ref())  # shared logits
    h = HadamardLayer(3, 2)
    s = SumLayer(3, 1)
    return Circuit([i0, i1, h, s], {h: [i0, i1], s: [h]}, [s])
x = torch.tensor([[0,1],[1,1],[0,0]])
for fold in (False, True):
    for opt in (False, True):
        try:
            torch.manual_seed(0)
            with PipelineContext(backend="torch", fold=fold, optimize=opt, semiring="sum-product") as ctx:
                c = ctx.compile(build())
            print(fold, opt, c(x).flatten().tolist())
        except Exception as e:
            print(fold, opt, "EXC", type(e).__name__, str(e)[:100])
