"""D32: optimize=True makes circuits that mix real and complex parameters raise at evaluation.
(a) sum-collapse: TorchMatMulParameter multiplies the complex weight of a conjugated Kronecker product
    with the real permutation matrix of multiply_kronecker_layers (torch.matmul does not promote);
(b) TorchEinsumParameter (the rewrite of ReduceSum(OuterProduct(..))) contracts a real with a complex
    embedding in integrate(multiply(real circuit, complex circuit))."""
import itertools, torch
import numpy as np
import cirkit.symbolic.functional as SF
from cirkit.backend.torch.compiler import TorchCompiler
from cirkit.symbolic.circuit import Circuit
from cirkit.symbolic.initializers import NormalInitializer
from cirkit.symbolic.layers import EmbeddingLayer, KroneckerLayer, SumLayer, HadamardLayer
from cirkit.symbolic.parameters import Parameter, TensorParameter
from cirkit.utils.scope import Scope


def wf(dtype):
    def f(shape):
        return Parameter.from_input(TensorParameter(*shape, initializer=NormalInitializer(), dtype=dtype))
    return f


def build(dtype, prod, K=2):
    ins = [EmbeddingLayer(Scope([v]), K, num_states=3, weight_factory=wf(dtype)) for v in range(2)]
    p = KroneckerLayer(K, arity=2) if prod == "kronecker" else HadamardLayer(K, arity=2)
    s = SumLayer(K * K if prod == "kronecker" else K, 1, weight_factory=wf(dtype))
    return Circuit([*ins, p, s], {p: ins, s: [p]}, [s])


from cirkit.symbolic.dtypes import DataType
x = torch.tensor(list(itertools.product(range(3), repeat=2)))
for case in ("a: conjugate(multiply(kronecker, kronecker)), complex", "b: integrate(multiply(real, complex)), hadamard"):
    ref = None
    for fold, optimize in itertools.product([False, True], repeat=2):
        torch.manual_seed(0)
        if case.startswith("a"):
            c = SF.conjugate(SF.multiply(build(DataType.COMPLEX, "kronecker"), build(DataType.COMPLEX, "kronecker")))
        else:
            c = SF.integrate(SF.multiply(build(DataType.REAL, "hadamard"), build(DataType.COMPLEX, "hadamard")))
        comp = TorchCompiler(semiring="complex-lse-sum", fold=fold, optimize=optimize)
        try:
            t = comp.compile(c)
            y = t(x) if case.startswith("a") else t()
            if ref is None:
                ref = y
            print(case, f"fold={fold} optimize={optimize}: ok, max deviation from the first {((y - ref).abs().max().item()):.2g}")
        except Exception as e:  # noqa
            print(case, f"fold={fold} optimize={optimize}: {type(e).__name__}: {e}")
