"""D42 (before the repair): cp/tucker with input_layer='binomial' builds Binomial(total_count=dim) factors, whose
support is {0..dim}, i.e. dim+1 states, while the tensor mode has dim states {0..dim-1}.  The entries of the
encoded tensor therefore do not sum to one although every factor and the weights are normalised."""
import itertools
import torch
from cirkit.pipeline import PipelineContext
from cirkit.templates import tensor_factorizations
from cirkit.templates.utils import Parameterization

torch.manual_seed(0)
shape = (3, 4)
softmax = Parameterization(activation="softmax", initialization="normal")
for name, build in [
    ("cp", lambda il: tensor_factorizations.cp(shape, 2, input_layer=il, weight_param=softmax)),
    ("tucker", lambda il: tensor_factorizations.tucker(shape, 2, input_layer=il, core_param=softmax)),
]:
    for il in ["categorical", "binomial"]:
        sc = build(il)
        ctx = PipelineContext(backend="torch", semiring="sum-product", fold=True, optimize=True)
        cc = ctx.compile(sc)
        xs = torch.tensor(list(itertools.product(*[range(d) for d in shape])))
        total = cc(xs).sum().item()
        print(f"{name:7s} {il:12s} sum over the {shape} tensor entries = {total:.6f}")
