# D29: Circuit.is_omni_compatible rebuilt the circuit's scope as Scope(range(num_variables)): for a
# circuit whose variables are not numbered 0..n-1 the reference factorization was keyed on a scope no
# product has, and the flag was vacuously True -- the same structure over [0,1,2] reports False.
from cirkit.symbolic.circuit import Circuit
from cirkit.symbolic.layers import CategoricalLayer, HadamardLayer, SumLayer
from cirkit.utils.scope import Scope
def chain(vs):
    g = [CategoricalLayer(Scope([v]), 2, num_categories=2) for v in vs]
    p1 = HadamardLayer(2, arity=2); s1 = SumLayer(2, 2); p2 = HadamardLayer(2, arity=2); s2 = SumLayer(2, 1)
    return Circuit(g + [p1, s1, p2, s2], {p1: g[:2], s1: [p1], p2: [s1, g[2]], s2: [p2]}, [s2])
for vs in ([0, 1, 2], [1, 2, 3], [0, 1, 5]):
    print(vs, chain(vs).is_omni_compatible)
