"""D33: build_circuit with a named sum-product abstraction on a region graph whose root region is
also an input region (a single leaf) returned the input layer itself: num_input_units output units,
num_classes ignored.  D34 (known): 'cp-t' / 'tucker' refuse unbalanced region graphs when
num_input_units != num_sum_units."""
from cirkit.symbolic.layers import CategoricalLayer
from cirkit.templates.region_graph import FullyFactorized, LinearTree, QuadTree, RandomBinaryTree


def cat(scope, num_units):
    return CategoricalLayer(scope, num_units, num_categories=3)


for label, rg in [("FullyFactorized(1)", FullyFactorized(1)), ("LinearTree(1)", LinearTree(1)), ("QuadTree((3,1,1))", QuadTree((3, 1, 1))), ("RandomBinaryTree(4, depth=0)", RandomBinaryTree(4, depth=0))]:
    for sp in ["cp", "cp-t", "tucker"]:
        sc = rg.build_circuit(input_factory=cat, sum_product=sp, num_input_units=3, num_sum_units=2, num_classes=5)
        (out,) = sc.outputs
        print(f"D33 {label} {sp}: output {type(out).__name__} has {out.num_output_units} units, requested 5; smooth={sc.is_smooth} decomposable={sc.is_decomposable} scope={sorted(sc.scope)}")
for label, rg in [("LinearTree(3)", LinearTree(3)), ("RandomBinaryTree(3)", RandomBinaryTree(3)), ("QuadTree((1,3,3))", QuadTree((1, 3, 3)))]:
    for sp in ["cp-t", "tucker"]:
        try:
            rg.build_circuit(input_factory=cat, sum_product=sp, num_input_units=3, num_sum_units=2)
            print(f"D34 {label} {sp}: built")
        except ValueError as e:
            print(f"D34 {label} {sp}: ValueError: {e}")
