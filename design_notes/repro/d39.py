"""D39: a ConstantTensorInitializer whose array is a view with negative strides (a[::-1]) could not be
compiled (torch.from_numpy refuses it), and copy_from_ndarray_ rounded every array through the
*current global default dtype* before copying it into the tensor (a float64 parameter reset while the
default is float32 is no exact copy)."""
import numpy as np, torch
from cirkit.backend.torch.compiler import TorchCompiler
from cirkit.symbolic.initializers import ConstantTensorInitializer
from cirkit.symbolic.parameters import Parameter, TensorParameter
from cirkit.symbolic.dtypes import DataType


def value(tp, comp=None):
    comp = comp or TorchCompiler()
    p = comp.compile_parameter(Parameter.from_input(tp))
    p.reset_parameters()
    return p, p().detach()[0]


a = np.arange(6.0).reshape(2, 3)
for label, arr in (("reversed view a[::-1]", a[::-1]), ("transposed view a.T", a.T), ("reversed columns a[:, ::-1]", a[:, ::-1])):
    try:
        _, v = value(TensorParameter(*arr.shape, initializer=ConstantTensorInitializer(arr)))
        print(label, "-> exact copy:", bool(np.array_equal(v.numpy(), arr.astype(np.float32))))
    except ValueError as e:
        print(label, "-> ValueError:", str(e)[:70])
arr = np.array([0.1, 0.2, 0.7])
torch.set_default_dtype(torch.float64)
p, v = value(TensorParameter(3, initializer=ConstantTensorInitializer(arr)))
torch.set_default_dtype(torch.float32)
p.reset_parameters()
v = p().detach()[0]
print("float64 parameter reset under a float32 default:", v.dtype, "max deviation", float((v - torch.from_numpy(arr)).abs().max()))
