import torch, numpy as np, itertools, functools
from cirkit.utils.scope import Scope
from cirkit.symbolic.layers import *
from cirkit.symbolic.parameters import *
from cirkit.symbolic.initializers import *
from cirkit.symbolic.circuit import Circuit
import cirkit.symbolic.functional as SF
from cirkit.pipeline import PipelineContext
torch.manual_seed(0)
# polynomial folded B=1
ins=[PolynomialLayer(Scope([v]),2,degree=2) for v in range(3)]
p=HadamardLayer(2,arity=3); s=SumLayer(2,1)
sc=Circuit(ins+[p,s],{p:ins,s:[p]},[s])
res={}
for fold in (False,True):
    ctx=PipelineContext(backend='torch',semiring='sum-product',fold=fold,optimize=False)
    with ctx: c=ctx.compile(sc)
    res[fold]=(c,ctx)
def tie(res):
    bc,bctx=res[False]; bp=bctx._compiler.state._compiled_parameters
    for k,(c,ctx) in res.items():
        for sp,(tp,fi) in ctx._compiler.state._compiled_parameters.items():
            btp,bfi=bp[sp]
            with torch.no_grad(): tp._ptensor.data[fi].copy_(btp._ptensor.data[bfi])
tie(res)
for B in (1,2,3):
    x=torch.randn(B,3)
    try:
        print("poly B",B, res[False][0](x).flatten().tolist(), res[True][0](x).flatten().tolist())
    except Exception as e: print("poly B",B,"EXC",e)
# binomial
ins=[BinomialLayer(Scope([v]),2,total_count=3) for v in range(2)]
p=HadamardLayer(2,arity=2); s=SumLayer(2,1)
sc=Circuit(ins+[p,s],{p:ins,s:[p]},[s])
for fold in (False,True):
    ctx=PipelineContext(backend='torch',semiring='lse-sum',fold=fold,optimize=False)
    with ctx: c=ctx.compile(sc)
    try:
        print("binom fold",fold,c(torch.tensor([[0,3],[1,2]])).flatten().tolist())
    except Exception as e: print("binom EXC",type(e).__name__,str(e)[:100])
