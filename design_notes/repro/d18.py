# D18: Dirichlet initialisation of a rank-3 symbolic tensor parameter along axis 0 raises when the
# other two sizes differ (dirichlet_ moves the simplex axis with transpose(dim, -1), which also swaps
# the last axis into the wrong place for rank >= 4 folded tensors).
import torch
from cirkit.symbolic.parameters import TensorParameter, Parameter, ReduceSumParameter
from cirkit.symbolic.initializers import DirichletInitializer
from cirkit.symbolic.layers import SumLayer, CategoricalLayer, HadamardLayer
from cirkit.symbolic.circuit import Circuit
from cirkit.utils.scope import Scope
from cirkit.pipeline import PipelineContext

t = TensorParameter(5, 2, 3, initializer=DirichletInitializer(axis=0))   # 5 mixture components ..
w = Parameter.from_unary(ReduceSumParameter(t.shape, axis=0), t)           # .. summed out: (2, 3) weight of ones
inp = CategoricalLayer(Scope([0]), 3, num_categories=2)
sl = SumLayer(3, 2, weight=w)
sc = Circuit([inp, sl], {sl: [inp]}, [sl])
for fold in (False, True):
    try:
        with PipelineContext(backend="torch", fold=fold) as ctx:
            c = ctx.compile(sc)
        wt = c.layers[-1].weight()
        print("fold", fold, "ok; every weight is a sum of 5 simplex coordinates -> all ones:", torch.allclose(wt, torch.ones_like(wt)))
    except Exception as e:
        print("fold", fold, "EXC", type(e).__name__, str(e)[:90])
