# D15: group_foldable_modules._gather_fold_settings reads the enclosing loop variable `m` instead of its
# argument, so the settings of sub-modules (layer wrapped by an evidence layer) are not in the group key.
import torch, itertools
from cirkit.symbolic.circuit import Circuit
from cirkit.symbolic.layers import CategoricalLayer, GaussianLayer, HadamardLayer, SumLayer
from cirkit.utils.scope import Scope
import cirkit.symbolic.functional as SF
from cirkit.pipeline import PipelineContext

def build(kind):
    if kind == 'numcat':
        i0 = CategoricalLayer(Scope([0]), 2, num_categories=3)
        i1 = CategoricalLayer(Scope([1]), 2, num_categories=4)
    else:
        i0 = CategoricalLayer(Scope([0]), 2, num_categories=3)
        i1 = GaussianLayer(Scope([1]), 2)
    p = HadamardLayer(2, arity=2)
    s = SumLayer(2, 1)
    return Circuit([i0, i1, p, s], {p: [i0, i1], s: [p]}, [s])

for kind in ['numcat', 'types']:
    for fold in [False, True]:
        torch.manual_seed(0)
        sc = build(kind)
        ctx = PipelineContext(backend='torch', semiring='sum-product', fold=fold, optimize=False)
        with ctx:
            c = ctx.compile(sc)
            try:
                ec = ctx.compile(SF.evidence(sc, {0: 1, 1: 2 if kind == 'numcat' else 0.3}))
                print(kind, 'fold', fold, 'OK', ec(torch.zeros(1, 2)).flatten().tolist() if False else ec().flatten().tolist())
            except Exception as e:
                print(kind, 'fold', fold, 'FAIL', type(e).__name__, str(e)[:150])
