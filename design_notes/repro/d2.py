# D2: conjugate gaussian drops log_partition ; D3: order dependence/asymmetry of compat
import torch, numpy as np
from cirkit.utils.scope import Scope
from cirkit.symbolic.layers import GaussianLayer, HadamardLayer, SumLayer, CategoricalLayer
from cirkit.symbolic.circuit import Circuit, are_compatible
import cirkit.symbolic.functional as SF
from cirkit.pipeline import PipelineContext
g0=GaussianLayer(Scope([0]),2); g1=GaussianLayer(Scope([1]),2)
p=HadamardLayer(2,arity=2); s=SumLayer(2,1)
sc=Circuit([g0,g1,p,s],{p:[g0,g1],s:[p]},[s])
sq=SF.multiply(sc,sc)
cj=SF.conjugate(sq)
ctx=PipelineContext(backend='torch',semiring='lse-sum',fold=False,optimize=False)
with ctx:
    csq=ctx.compile(sq); ccj=ctx.compile(cj)
x=torch.randn(5,2)
print("D2 sq vs conj(sq):", csq(x).flatten(), ccj(x).flatten())
# D3
def mk(order, extra=False):
    a=CategoricalLayer(Scope([0]),2,num_categories=2); b=CategoricalLayer(Scope([1]),2,num_categories=2)
    ins={'a':a,'b':b}
    p=HadamardLayer(2,arity=2); s=SumLayer(2,1)
    return Circuit([a,b,p,s],{p:[ins[o] for o in order],s:[p]},[s])
c1=mk('ab'); c2=mk('ba')
print("D3 compat(ab,ab)", are_compatible(mk('ab'),mk('ab')), "compat(ab,ba)", are_compatible(c1,c2))
# two products in one circuit listing in different order
a=CategoricalLayer(Scope([0]),2,num_categories=2); b=CategoricalLayer(Scope([1]),2,num_categories=2)
p1=HadamardLayer(2,arity=2); p2=HadamardLayer(2,arity=2); s=SumLayer(2,1,arity=2)
c3=Circuit([a,b,p1,p2,s],{p1:[a,b],p2:[b,a],s:[p1,p2]},[s])
print("D3 SD of circuit with (a,b),(b,a) products:", c3.is_structured_decomposable)
# asymmetry: c_big over {0,1,2} = prod(sum(prod(x0,x1)), x2) ; c_small = prod(x01 joint?, ...) need multivariate input -> use BinomialLayer(no univariate check)
from cirkit.symbolic.layers import BinomialLayer
def big():
    a=CategoricalLayer(Scope([0]),2,num_categories=2); b=CategoricalLayer(Scope([1]),2,num_categories=2); c=CategoricalLayer(Scope([2]),2,num_categories=2)
    p1=HadamardLayer(2,arity=2); s1=SumLayer(2,2); p2=HadamardLayer(2,arity=2); s2=SumLayer(2,1)
    return Circuit([a,b,c,p1,s1,p2,s2],{p1:[a,b],s1:[p1],p2:[s1,c],s2:[p2]},[s2])
def small():
    ab=BinomialLayer(Scope([0,1]),2); c=CategoricalLayer(Scope([2]),2,num_categories=2)
    p2=HadamardLayer(2,arity=2); s2=SumLayer(2,1)
    return Circuit([ab,c,p2,s2],{p2:[ab,c],s2:[p2]},[s2])
B,S=big(),small()
print("D3 asym: compat(big,small)=",are_compatible(B,S)," compat(small,big)=",are_compatible(S,B))
