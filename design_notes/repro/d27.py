# D27: a symbolic tensor parameter compiled a second time (a sub-circuit obtained with
# Circuit.subgraph shares its symbolic layers with the circuit it was cut from) was registered again,
# overwriting the registry entry: circuits derived from the ORIGINAL afterwards point at the
# sub-circuit's tensors.  Z = integrate(sc) then differs from the sum of tc over all inputs.
import itertools, torch
import cirkit.symbolic.functional as SF
from cirkit.backend.torch.compiler import TorchCompiler
from cirkit.symbolic.circuit import Circuit
from cirkit.symbolic.layers import EmbeddingLayer, HadamardLayer, SumLayer
from cirkit.utils.scope import Scope

for fold in (False, True):
    torch.manual_seed(0)
    i0, i1 = EmbeddingLayer(Scope([0]), 2, num_states=2), EmbeddingLayer(Scope([1]), 2, num_states=2)
    p = HadamardLayer(2, arity=2); s = SumLayer(2, 1)
    sc = Circuit([i0, i1, p, s], {p: [i0, i1], s: [p]}, [s])
    comp = TorchCompiler(semiring="sum-product", fold=fold)
    tc = comp.compile(sc)
    comp.compile(sc.subgraph(p))          # shares the symbolic input layers with sc
    z = comp.compile(SF.integrate(sc))
    X = torch.tensor(list(itertools.product([0, 1], repeat=2)))
    print("fold", fold, "Z =", z().item(), " sum_x c(x) =", tc(X).sum().item())
