# D1: Scope iteration order; differentiate ordering
from cirkit.utils.scope import Scope
print("iter Scope([1,8]):", list(Scope([1,8])), "Scope([3,9,17]):", list(Scope([3,9,17])))
import numpy as np, torch
from cirkit.symbolic.layers import PolynomialLayer, HadamardLayer, SumLayer
from cirkit.symbolic.circuit import Circuit
import cirkit.symbolic.functional as SF
from cirkit.pipeline import PipelineContext
def build(vars_):
    ins=[PolynomialLayer(Scope([v]),2,degree=2) for v in vars_]
    p1=HadamardLayer(2,arity=2)
    s1=SumLayer(2,2)
    p2=HadamardLayer(2,arity=2)
    s2=SumLayer(2,1)
    layers=ins+[p1,s1,p2,s2]
    in_layers={p1:[ins[0],ins[1]], s1:[p1], p2:[s1,ins[2]], s2:[p2]}
    return Circuit(layers,in_layers,[s2])
for vars_ in ([0,1,2],[1,8,3]):
    sc=build(vars_)
    dsc=SF.differentiate(sc,order=1)
    ctx=PipelineContext(backend='torch',semiring='sum-product',fold=False,optimize=False)
    with ctx:
        c=ctx.compile(sc); dc=ctx.compile(dsc)
    D=max(vars_)+1
    x=torch.randn(4,D,dtype=torch.float32,requires_grad=True)
    y=c(x)[:,0,0]
    g=torch.autograd.grad(y.sum(),x)[0]
    dy=dc(x)  # (B, O, K)
    sv=sorted(vars_)
    print(vars_, "num outputs", dy.shape)
    for oi,v in enumerate(sv):
        print("  out",oi,"expected d/dx",v, "match:", torch.allclose(dy[:,oi,0], g[:,v], atol=1e-4))
