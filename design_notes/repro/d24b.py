import itertools, torch
import cirkit.symbolic.functional as SF
from cirkit.pipeline import PipelineContext
from cirkit.symbolic.circuit import Circuit
from cirkit.symbolic.layers import CategoricalLayer, KroneckerLayer, SumLayer
from cirkit.utils.scope import Scope
X = torch.tensor(list(itertools.product([0, 1], repeat=2)))
def c_kron(K, order):
    i = {0: CategoricalLayer(Scope([0]), K, num_categories=2), 1: CategoricalLayer(Scope([1]), K, num_categories=2)}
    p = KroneckerLayer(K, arity=2); s = SumLayer(K * K, 1)
    return Circuit([i[0], i[1], p, s], {p: [i[o] for o in order], s: [p]}, [s])
def run(name, sc1, sc2, obs=None):
    torch.manual_seed(0)
    with PipelineContext(backend="torch", semiring="sum-product", fold=False, optimize=False) as ctx:
        if obs is not None:
            sc1, sc2 = SF.evidence(sc1, obs), SF.evidence(sc2, obs)
        try:
            sc = SF.multiply(sc1, sc2)
        except NotImplementedError as e:
            print(name, "refused:", str(e)[:60]); return
        t1, t2, t = ctx.compile(sc1), ctx.compile(sc2), ctx.compile(sc)
    x = X if obs is None else X[:, [v for v in (0, 1) if v not in obs]].unique(dim=0)
    xin = torch.zeros(len(x), 2, dtype=torch.long)
    for k, v in enumerate([v for v in (0, 1) if obs is None or v not in obs]): xin[:, v] = x[:, k]
    y, y1, y2 = t(xin), t1(xin), t2(xin)
    ref = (y1.unsqueeze(-1) * y2.unsqueeze(-2)).flatten(-2)
    print(name, "max abs error", (ref - y).abs().max().item())
run("[x1,x0] x [x1,x0]", c_kron(2, (1, 0)), c_kron(2, (1, 0)))
run("[x0,x1] x [x1,x0]", c_kron(2, (0, 1)), c_kron(2, (1, 0)))
run("evidence on x0, inputs [x1,x0]", c_kron(2, (1, 0)), c_kron(2, (1, 0)), {0: 1})
run("evidence on x1, inputs [x0,x1]", c_kron(2, (0, 1)), c_kron(2, (0, 1)), {1: 0})
