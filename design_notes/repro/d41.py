"""UNCHANGED code: in the 'lse-sum' semiring a unit that evaluates to exactly zero poisons the
gradients with NaN although the circuit output is non-zero (and the true derivatives are finite).
The 'sum-product' and 'complex-lse-sum' compilations of the same circuit give finite gradients.

Circuit over X0, X1 (binary):  c(x) = w_A * f1(x0) * g1(x1) + w_B * f2(x0) * g2(x1)
where f1 = sum over an indicator-like Categorical with constant probs [1, 0] (so f1(x0=1) == 0).
"""
import torch
from cirkit.backend.torch.compiler import TorchCompiler
from cirkit.symbolic.circuit import Circuit
from cirkit.symbolic.layers import CategoricalLayer, HadamardLayer, SumLayer
from cirkit.symbolic.parameters import ConstantParameter, Parameter, TensorParameter
from cirkit.symbolic.initializers import UniformInitializer
from cirkit.utils.scope import Scope
import numpy as np

torch.set_default_dtype(torch.float64)

def build():
    ind0 = CategoricalLayer(Scope([0]), 1, num_categories=2,
                            probs=Parameter.from_input(ConstantParameter(1, 2, value=np.array([[1.0, 0.0]]))))
    any0 = CategoricalLayer(Scope([0]), 1, num_categories=2,
                            probs=Parameter.from_input(ConstantParameter(1, 2, value=np.array([[0.5, 0.5]]))))
    in1a = CategoricalLayer(Scope([1]), 1, num_categories=2)
    in1b = CategoricalLayer(Scope([1]), 1, num_categories=2)
    wf = lambda shape: Parameter.from_input(TensorParameter(*shape, initializer=UniformInitializer(0.2, 1.0)))
    f1 = SumLayer(1, 1, weight_factory=wf)   # over ind0
    f2 = SumLayer(1, 1, weight_factory=wf)   # over any0
    pa = HadamardLayer(1, 2)
    pb = HadamardLayer(1, 2)
    root = SumLayer(1, 1, arity=2, weight_factory=wf)
    in_layers = {f1: [ind0], f2: [any0], pa: [f1, in1a], pb: [f2, in1b], root: [pa, pb]}
    return Circuit([ind0, any0, in1a, in1b, f1, f2, pa, pb, root], in_layers, [root]), f1

x = torch.tensor([[1, 0]])  # x0 = 1 -> f1 == 0 exactly, the circuit value is still > 0
for semiring in ["sum-product", "lse-sum", "complex-lse-sum"]:
    torch.manual_seed(0)
    sc, f1 = build()
    compiler = TorchCompiler(semiring=semiring)
    tc = compiler.compile(sc)
    y = tc(x)
    (y.real if y.is_complex() else y).sum().backward()
    (t,) = [n for n in f1.weight.nodes if isinstance(n, TensorParameter)]
    p, i = compiler.state.retrieve_compiled_parameter(t)
    print(f"{semiring:16s} output={y.flatten().tolist()} grad wrt the weight of f1 = {p().grad[i].flatten().tolist()}")
