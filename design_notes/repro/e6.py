import torch, numpy as np, itertools, functools, io
from cirkit.utils.scope import Scope
from cirkit.symbolic.layers import *
from cirkit.symbolic.parameters import *
from cirkit.symbolic.initializers import *
from cirkit.symbolic.circuit import Circuit
import cirkit.symbolic.functional as SF
from cirkit.pipeline import PipelineContext
import cirkit.pipeline as P
from cirkit.templates import data_modalities, pgms, tensor_factorizations
from cirkit.templates.utils import *
torch.manual_seed(0)
# C12 Z==1
for rgname in ('quad-tree-2','quad-tree-4','quad-graph','random-binary-tree','poon-domingos'):
  for sp in ('cp','cp-t','tucker'):
    for il in ('categorical','binomial','gaussian'):
      for mix in (True,False):
        try:
            sc=data_modalities.image_data((1,3,3),region_graph=rgname,input_layer=il,num_input_units=2,sum_product_layer=sp,num_sum_units=2,use_mixing_weights=mix)
        except Exception as e:
            print("build EXC",rgname,sp,il,mix,type(e).__name__,str(e)[:60]); continue
        try:
            isc=SF.integrate(sc)
        except Exception as e:
            if il!='binomial': print("int EXC",rgname,sp,il,mix,type(e).__name__,str(e)[:60])
            continue
        for fold,opt in ((False,False),(True,True)):
            ctx=PipelineContext(backend='torch',semiring='lse-sum',fold=fold,optimize=opt)
            with ctx: z=ctx.compile(isc)
            v=z().item()
            if abs(v)>1e-4: print("C12 Z!=1",rgname,sp,il,mix,fold,opt,v)
print("C12 done")
# C18 contexts
ctx1=PipelineContext(backend='torch',semiring='lse-sum',fold=True,optimize=True)
ctx2=PipelineContext(backend='torch',semiring='sum-product',fold=False,optimize=False)
d=P._PIPELINE_CONTEXT.get()
from cirkit.symbolic.registry import OPERATOR_REGISTRY
r=OPERATOR_REGISTRY.get()
try:
    with ctx1:
        with ctx2:
            assert P._PIPELINE_CONTEXT.get() is ctx2
            raise RuntimeError("x")
except RuntimeError: pass
print("C18 restored:", P._PIPELINE_CONTEXT.get() is d, OPERATOR_REGISTRY.get() is r)
sc=pgms.hmm([0,1,2],num_latent_states=2,input_layer_kwargs={'num_categories':2})
with ctx1:
    c=P.compile(sc); c2=P.compile(sc); i=P.integrate(c); i2=P.integrate(c)
    print("C18 same obj",c is c2,"integrate twice same?",i is i2, ctx1.is_compiled(sc), ctx1.has_symbolic(c), ctx1.get_symbolic_circuit(c) is sc)
