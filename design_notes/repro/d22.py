# D22: a symbolic EvidenceLayer that wraps an input layer owning its tensor parameter compiles, but the
# wrapped layer's tensor is never allocated: TorchCircuit.reset_parameters visits l.params of the
# top-level layers only, and an evidence layer keeps the wrapped layer in sub_modules.
import numpy as np, torch
from cirkit.symbolic.parameters import Parameter, ConstantParameter
from cirkit.symbolic.layers import SumLayer, CategoricalLayer, EvidenceLayer
from cirkit.symbolic.circuit import Circuit
from cirkit.utils.scope import Scope
from cirkit.backend.torch.compiler import TorchCompiler

for fold in (False, True):
    inner = CategoricalLayer(Scope([0]), num_output_units=2, num_categories=3)
    evi = EvidenceLayer(inner, observation=Parameter.from_input(ConstantParameter(1, value=np.array([1]))))
    root = SumLayer(2, 1)
    c = Circuit(layers=[evi, root], in_layers={root: [evi]}, outputs=[root])
    try:
        cc = TorchCompiler(fold=fold).compile(c)
        print("fold", fold, "ok", cc().flatten().tolist())
    except Exception as e:
        print("fold", fold, "EXC", type(e).__name__, str(e)[:80])
