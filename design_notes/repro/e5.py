import torch, numpy as np, itertools, functools
from cirkit.utils.scope import Scope
from cirkit.symbolic.layers import *
from cirkit.symbolic.parameters import *
from cirkit.symbolic.initializers import *
from cirkit.symbolic.circuit import Circuit
import cirkit.symbolic.functional as SF
from cirkit.pipeline import PipelineContext
from cirkit.templates.region_graph import *
from cirkit.templates.utils import *
torch.manual_seed(0)
wf=parameterization_to_factory(Parameterization(activation='softmax'))
rg=RandomBinaryTree(5,num_repetitions=2)
for inp,dom in (('categorical',3),('gaussian',None)):
  kw={'num_categories':3} if inp=='categorical' else {}
  sc=rg.build_circuit(input_factory=name_to_input_layer_factory(inp,**kw),sum_product='cp',sum_weight_factory=wf,nary_sum_weight_factory=functools.partial(mixing_weight_factory,param_factory=wf),num_input_units=2,num_sum_units=2)
  for obs in ({0:1},{1:2,3:0},{0:1,1:0,2:2,3:1,4:0},{4:2,2:1}):
    if inp=='gaussian': obs={k:float(v)*0.37-0.2 for k,v in obs.items()}
    esc=SF.evidence(sc,obs)
    cat=SF.concatenate([esc,esc])
    for sem in ('lse-sum','sum-product'):
      for fold,opt in itertools.product((False,True),repeat=2):
        ctx=PipelineContext(backend='torch',semiring=sem,fold=fold,optimize=opt)
        with ctx:
            c=ctx.compile(sc); ec=ctx.compile(esc); cc=ctx.compile(cat)
            if len(obs)<5 and inp=='categorical':
                iec=ctx.compile(SF.integrate(esc))
        if inp=='categorical': x=torch.randint(0,3,(7,5))
        else: x=torch.randn(7,5)
        xo=x.clone()
        for k,v in obs.items(): xo[:,k]=v
        ref=c(xo)
        got=ec(x) if len(obs)<5 else ec().unsqueeze(0).expand_as(ref)
        ok=torch.allclose(ref,got,rtol=1e-4,atol=1e-6)
        got2=cc(x) if len(obs)<5 else cc().unsqueeze(0).expand(7,-1,-1)
        ok2=torch.allclose(torch.cat([ref,ref],1),got2,rtol=1e-4,atol=1e-6)
        if not (ok and ok2): print("C06 FAIL",inp,obs,sem,fold,opt,ok,ok2)
        assert esc.scope==Scope(set(range(5))-set(obs))
print("C06 scan done")
