import itertools, torch
from cirkit.templates.logic import *
from cirkit.pipeline import PipelineContext

def ev(lc, nvars, **kw):
    sc = lc.build_circuit(**kw)
    ctx = PipelineContext(backend="torch", semiring="sum-product", fold=False, optimize=False)
    c = ctx.compile(sc)
    xs = torch.tensor(list(itertools.product([0,1], repeat=nvars)))
    return sc, c, xs, c(xs).flatten()

# d1 = (a & b) | (~a & ~b);  d = d1 | (~a & b & c)
a, na, b, nb, c_ = LiteralNode(0), NegatedLiteralNode(0), LiteralNode(1), NegatedLiteralNode(1), LiteralNode(2)
c1, c2, c3 = ConjunctionNode(), ConjunctionNode(), ConjunctionNode()
d1, d = DisjunctionNode(), DisjunctionNode()
in_nodes = {c1: [a, b], c2: [na, nb], d1: [c1, c2], c3: [na, b, c_], d: [d1, c3]}
lc = LogicalCircuit([a, na, b, nb, c_, c1, c2, c3, d1, d], in_nodes, [d])
sc, c, xs, y = ev(lc, 3)
print(sc.scope, y.tolist())
print([int((x[0]==x[1]) or ((not x[0]) and x[1] and x[2])) for x in xs.tolist()])
