import torch
from cirkit.utils.scope import Scope
from cirkit.symbolic.layers import *
from cirkit.symbolic.circuit import Circuit
import cirkit.symbolic.functional as SF
from cirkit.pipeline import PipelineContext
torch.manual_seed(0)
ins=[PolynomialLayer(Scope([v]),2,degree=3) for v in range(2)]
p=HadamardLayer(2,arity=2); s=SumLayer(2,1)
sc=Circuit(ins+[p,s],{p:ins,s:[p]},[s])
d2=SF.differentiate(sc,order=2)
res={}
for fold in (False,True):
    ctx=PipelineContext(backend='torch',semiring='sum-product',fold=fold,optimize=False)
    with ctx: c=ctx.compile(sc); dc=ctx.compile(d2)
    res[fold]=(c,dc,ctx)
bp=res[False][2]._compiler.state._compiled_parameters
for k,(c,dc,ctx) in res.items():
    for sp,(tp,fi) in ctx._compiler.state._compiled_parameters.items():
        if sp in bp:
            btp,bfi=bp[sp]
            with torch.no_grad(): tp._ptensor.data[fi].copy_(btp._ptensor.data[bfi])
x=torch.randn(3,2,dtype=torch.float32)
for fold in (False,True):
    try: print("fold",fold,res[fold][1](x)[:, :, 0].tolist())
    except Exception as e: print("fold",fold,"EXC",type(e).__name__,str(e)[:120])
# reference via autograd second derivative wrt x0
c=res[False][0]
xx=x.clone().requires_grad_(True)
y=c(xx)[:,0,0]
g=torch.autograd.grad(y.sum(),xx,create_graph=True)[0]
g2=[torch.autograd.grad(g[:,i].sum(),xx,retain_graph=True)[0][:,i] for i in range(2)]
print("ref d2/dx0^2, d2/dx1^2:",[t.tolist() for t in g2])
