import torch, numpy as np, itertools, functools
from cirkit.utils.scope import Scope
from cirkit.symbolic.layers import *
from cirkit.symbolic.parameters import *
from cirkit.symbolic.initializers import *
from cirkit.symbolic.circuit import Circuit
import cirkit.symbolic.functional as SF
from cirkit.pipeline import PipelineContext
from cirkit.templates import pgms
from cirkit.templates.utils import Parameterization
torch.manual_seed(0)
# D9 multiply sum layers arity 2 with K=2
def mk(K,H):
    a=[CategoricalLayer(Scope([0]),K,num_categories=2) for _ in range(H)]
    s=SumLayer(K,1,arity=H)
    return Circuit(a+[s],{s:a},[s])
for (K1,H1,K2,H2) in [(2,1,2,1),(2,2,2,1),(2,1,2,2),(2,2,2,2),(1,2,1,2),(3,2,2,3)]:
    c1,c2=mk(K1,H1),mk(K2,H2)
    pr=SF.multiply(c1,c2)
    ctx=PipelineContext(backend='torch',semiring='sum-product',fold=False,optimize=False)
    with ctx:
        t1,t2,tp=ctx.compile(c1),ctx.compile(c2),ctx.compile(pr)
    x=torch.tensor([[0],[1]])
    print("D9",(K1,H1,K2,H2),"match",torch.allclose(t1(x)*t2(x),tp(x),atol=1e-5))
# D10 hmm ordering with per-variable kwargs
kw=[{'num_categories':2},{'num_categories':3},{'num_categories':4}]
for ordering in ([0,1,2],[2,0,1]):
    sc=pgms.hmm(ordering,input_layer='categorical',num_latent_states=2,input_layer_kwargs=kw)
    print("D10 ordering",ordering,{tuple(l.scope)[0]:l.num_categories for l in sc.input_layers})
