"""D38: CompilerRegistry stored the dict it was given; TorchCompiler passes the module-level DEFAULT_*
tables, so a compilation rule added to one compiler / pipeline context became active in every other
one (created before or after) and in the default context."""
import torch
from cirkit.backend.torch.compiler import TorchCompiler
from cirkit.symbolic.initializers import NormalInitializer
from cirkit.symbolic.parameters import Parameter, TensorParameter


def zeros_rule(compiler: TorchCompiler, init: NormalInitializer) -> object:
    return torch.nn.init.zeros_


before = TorchCompiler()
custom = TorchCompiler()
custom.add_initializer_rule(zeros_rule)
after = TorchCompiler()
for name, comp in (("compiler created before", before), ("the compiler given the rule", custom), ("compiler created after", after)):
    p = Parameter.from_input(TensorParameter(2000, initializer=NormalInitializer(5.0, 0.1)))
    tp = comp.compile_parameter(p)
    tp.reset_parameters()
    print(f"{name}: mean of a Normal(5, 0.1) parameter = {float(tp().mean()):.3f}")
