import torch, numpy as np, itertools, functools
from cirkit.utils.scope import Scope
from cirkit.symbolic.layers import *
from cirkit.symbolic.parameters import *
from cirkit.symbolic.initializers import *
from cirkit.symbolic.circuit import Circuit
import cirkit.symbolic.functional as SF
from cirkit.pipeline import PipelineContext
from cirkit.templates.region_graph import *
from cirkit.templates.utils import *
torch.manual_seed(0)
wf=parameterization_to_factory(Parameterization(activation='softmax'))
def gauss(nv=2,K=2):
    ins=[GaussianLayer(Scope([v]),K) for v in range(nv)]
    p=HadamardLayer(K,arity=nv); s=SumLayer(K,1,weight_factory=wf)
    return Circuit(ins+[p,s],{p:ins,s:[p]},[s])
g=gauss()
sq=SF.multiply(g,g)
grid=torch.linspace(-6,6,1201)
for fold,opt in itertools.product((False,True),repeat=2):
  for sem in ('lse-sum','sum-product'):
    ctx=PipelineContext(backend='torch',semiring=sem,fold=fold,optimize=opt)
    with ctx:
        cg=ctx.compile(g); csq=ctx.compile(sq)
        z=ctx.compile(SF.integrate(sq)); z1=ctx.compile(SF.integrate(sq,Scope([1])))
        z10=ctx.compile(SF.integrate(SF.integrate(sq,Scope([1])),Scope([0])))
    f=(lambda t: t.exp()) if sem=='lse-sum' else (lambda t:t)
    X=torch.cartesian_prod(grid,grid)
    dx=(grid[1]-grid[0]).item()
    v=f(csq(X))[:,0,0]; vg=f(cg(X))[:,0,0]
    print(fold,opt,sem,"sq==g*g",torch.allclose(v,vg*vg,rtol=1e-3,atol=1e-6),"Z quad %.5f"%(v.sum()*dx*dx).item(),"Z %.5f"%f(z()).item(),"Z10 %.5f"%f(z10()).item(),
      "marg x1 at x0=0.3: quad %.5f"%(f(csq(torch.stack([torch.full_like(grid,0.3),grid],1)))[:,0,0].sum()*dx).item(),"op %.5f"%f(z1(torch.tensor([[0.3,0.0]]))).item())
