# D30: SamplingQuery._pad_samples allocated len(circuit.scope) variable columns but fills them at the
# raw variable ids: a circuit over the variables {1, 3} could not be sampled (IndexError), although
# evaluation and IntegrateQuery address inputs by variable id (max id + 1 columns).
import torch
from cirkit.symbolic.circuit import Circuit
from cirkit.symbolic.layers import CategoricalLayer, HadamardLayer, SumLayer
from cirkit.utils.scope import Scope
from cirkit.backend.torch.compiler import TorchCompiler
from cirkit.backend.torch.queries import SamplingQuery
from cirkit.symbolic.parameters import Parameter, TensorParameter, SoftmaxParameter
from cirkit.symbolic.initializers import NormalInitializer

def softmax_w(shape):
    t = TensorParameter(*shape, initializer=NormalInitializer())
    return Parameter.from_unary(SoftmaxParameter(shape, axis=1), t)
for ids in ([0, 1], [1, 3]):
    i0, i1 = CategoricalLayer(Scope([ids[0]]), 2, num_categories=3), CategoricalLayer(Scope([ids[1]]), 2, num_categories=3)
    p = HadamardLayer(2, arity=2); s = SumLayer(2, 1, weight_factory=softmax_w)
    sc = Circuit([i0, i1, p, s], {p: [i0, i1], s: [p]}, [s])
    tc = TorchCompiler(semiring="lse-sum").compile(sc)
    try:
        x, _ = SamplingQuery(tc)(5)
        print(ids, "samples", tuple(x.shape), "log-likelihood finite:", bool(torch.isfinite(tc(x.long())).all()))
    except Exception as e:
        print(ids, "EXC", type(e).__name__, str(e)[:70])
