"""D40: the symbolic ScaledSigmoidParameter admits any vmin < vmax, the torch node asserted
0 <= vmin < vmax: a symbolic scaled sigmoid onto [-1, 1] could not be compiled."""
import torch
from cirkit.backend.torch.compiler import TorchCompiler
from cirkit.symbolic.initializers import NormalInitializer
from cirkit.symbolic.parameters import Parameter, ScaledSigmoidParameter, TensorParameter

t = TensorParameter(2, 3, initializer=NormalInitializer())
p = Parameter.from_unary(ScaledSigmoidParameter(t.shape, vmin=-1.0, vmax=1.0), t)
try:
    tp = TorchCompiler().compile_parameter(p)
    tp.reset_parameters()
    v = tp().detach()
    print("compiled; all values in (-1, 1):", bool(((v > -1) & (v < 1)).all()), "some negative:", bool((v < 0).any()))
except AssertionError as e:
    print("AssertionError:", e)
