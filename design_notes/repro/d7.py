import torch, numpy as np, itertools, functools
from cirkit.utils.scope import Scope
from cirkit.symbolic.layers import *
from cirkit.symbolic.parameters import *
from cirkit.symbolic.initializers import *
from cirkit.symbolic.circuit import Circuit
import cirkit.symbolic.functional as SF
from cirkit.pipeline import PipelineContext
from cirkit.templates.region_graph import RandomBinaryTree, QuadGraph
from cirkit.templates.utils import name_to_input_layer_factory
torch.manual_seed(0)
# D7
rg=RandomBinaryTree(4)
try:
    sc=rg.build_circuit(input_factory=name_to_input_layer_factory('categorical',num_categories=2),
        sum_factory=lambda i,o: SumLayer(i,o), prod_factory=lambda k,a: HadamardLayer(k,arity=a), num_input_units=2,num_sum_units=2)
    print("D7 ok", len(sc.layers))
except BaseException as e:
    print("D7 EXC",type(e).__name__,str(e)[:100])
# D8: output product feeding output sum with optimize
a=CategoricalLayer(Scope([0]),2,num_categories=2); b=CategoricalLayer(Scope([1]),2,num_categories=2)
p=HadamardLayer(2,arity=2); s=SumLayer(2,2)
sc=Circuit([a,b,p,s],{p:[a,b],s:[p]},[p,s])
outs={}
for opt in (False,True):
    for fold in (False,True):
        ctx=PipelineContext(backend='torch',semiring='sum-product',fold=fold,optimize=opt)
        with ctx: c=ctx.compile(sc)
        # tie params
        outs[(opt,fold)]=(c,ctx)
x=torch.tensor([[0,1],[1,1]])
# copy params from (False,False) to others via compiler state
import copy
def getparams(ctx):
    st=ctx._compiler.state
    return st._compiled_parameters
base_c,base_ctx=outs[(False,False)]
bp=getparams(base_ctx)
for k,(c,ctx) in outs.items():
    cp=getparams(ctx)
    for sp,(tp,fi) in cp.items():
        btp,bfi=bp[sp]
        with torch.no_grad():
            tp._ptensor.data[fi].copy_(btp._ptensor.data[bfi])
    print("D8",k,c(x).detach().numpy().round(4).tolist())
