import torch, numpy as np, itertools, functools
from cirkit.utils.scope import Scope
from cirkit.symbolic.layers import *
from cirkit.symbolic.parameters import *
from cirkit.symbolic.initializers import *
from cirkit.symbolic.circuit import Circuit
import cirkit.symbolic.functional as SF
from cirkit.pipeline import PipelineContext
torch.manual_seed(0)
# D5 Index parameter axis != 0
def wf_axis(axis):
    def wf(shape):
        # weight shape (Ko, Ki) from a bigger tensor indexed along `axis`
        big=list(shape); big[axis]+=2
        t=TensorParameter(*big, initializer=NormalInitializer())
        return Parameter.from_unary(IndexParameter(tuple(big), indices=list(range(shape[axis])), axis=axis), t)
    return wf
for axis in (0,1):
    try:
        a=CategoricalLayer(Scope([0]),3,num_categories=2)
        s=SumLayer(3,2,weight_factory=wf_axis(axis))
        sc=Circuit([a,s],{s:[a]},[s])
        ctx=PipelineContext(backend='torch',semiring='sum-product',fold=False,optimize=False)
        with ctx: c=ctx.compile(sc)
        print("D5 axis",axis,"ok", c(torch.zeros(1,1,dtype=torch.long)).shape)
    except Exception as e:
        print("D5 axis",axis,"EXC",type(e).__name__,str(e)[:150])
# D6 Dirichlet axis under folding
for fold in (False,True):
    for axis in (0,1,-1,-2):
        try:
            def wf(shape, axis=axis): return Parameter.from_input(TensorParameter(*shape, initializer=DirichletInitializer(axis=axis)))
            a=CategoricalLayer(Scope([0]),3,num_categories=2)
            s=SumLayer(3,4,weight_factory=wf)
            sc=Circuit([a,s],{s:[a]},[s])
            ctx=PipelineContext(backend='torch',semiring='sum-product',fold=fold,optimize=False)
            with ctx: c=ctx.compile(sc)
            w=[l for l in c.layers if hasattr(l,'weight')][0].weight()
            print("D6 fold",fold,"axis",axis,"sums along ax0(K=4):", w[0].sum(0).tolist(), "ax1:", w[0].sum(1).tolist())
        except Exception as e:
            print("D6 fold",fold,"axis",axis,"EXC",type(e).__name__,str(e)[:100])
