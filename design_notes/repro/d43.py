"""D43: DirichletInitializer.allows_shape only checked the upper end of the (normalised) axis: axis=-3
on a 2-d parameter was accepted, and the compiled initialiser normalised along the fold axis (size 1):
every entry 1.0, no axis sums to one."""
import torch
from cirkit.backend.torch.compiler import TorchCompiler
from cirkit.symbolic.initializers import DirichletInitializer
from cirkit.symbolic.parameters import Parameter, TensorParameter

for axis in (-1, -2, 0, 1, -3, 2):
    try:
        tp = TensorParameter(3, 4, initializer=DirichletInitializer(axis=axis))
        p = TorchCompiler().compile_parameter(Parameter.from_input(tp))
        p.reset_parameters()
        v = p().detach()[0]
        print(f"axis={axis:+d}: accepted; sums along axis 0: {v.sum(0)[:2].tolist()} along axis 1: {v.sum(1)[:2].tolist()}")
    except ValueError as e:
        print(f"axis={axis:+d}: ValueError: {str(e)[:70]}")
