import torch
from cirkit.symbolic.parameters import TensorParameter, Parameter, IndexParameter
from cirkit.symbolic.layers import SumLayer, CategoricalLayer
from cirkit.symbolic.circuit import Circuit
from cirkit.utils.scope import Scope
from cirkit.pipeline import PipelineContext

def build():
    i0 = CategoricalLayer(Scope([0]), 3, num_categories=2)
    from cirkit.symbolic.initializers import NormalInitializer
    t = TensorParameter(4, 3, initializer=NormalInitializer())
    w = Parameter.from_unary(IndexParameter(t.shape, axis=0, indices=[0, 2]), t)
    s = SumLayer(3, 2, weight=w)
    return Circuit([i0, s], {s: [i0]}, [s])
x = torch.tensor([[0],[1]])
for fold in (False, True):
    try:
        torch.manual_seed(0)
        with PipelineContext(backend="torch", fold=fold, semiring="sum-product") as ctx:
            c = ctx.compile(build())
        print(fold, c(x).flatten().tolist())
    except Exception as e:
        print(fold, "EXC", type(e).__name__, str(e)[:100])
