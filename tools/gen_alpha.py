#!/venv/bin/python
"""usage: gen_alpha.py [root]
Writes sa/alpha_ref.json: function -> {local name: definition signature} for the tree the rules were
written against (see sa/alpha.py).  Committed; checks never regenerate it."""
import json, os, sys
os.environ["SA_NO_ALPHA"] = "1"
sys.path.insert(0, os.path.dirname(os.path.dirname(os.path.abspath(__file__))))
from sa.model import Repo
from sa import alpha
repo = Repo(sys.argv[1] if len(sys.argv) > 1 else None)
ref = alpha.build_reference(repo.functions)
p = os.path.join(os.path.dirname(os.path.dirname(os.path.abspath(__file__))), "sa", "alpha_ref.json")
json.dump(ref, open(p, "w"), indent=0, sort_keys=True)
print("wrote", p, len(ref), "functions", sum(len(v) for v in ref.values()), "locals", os.path.getsize(p), "bytes")
