#!/bin/bash
# usage: verify_seed.sh <seed_dir containing patch.diff, demo_test.py> <name> [--no-suite]
# Confirms, in a scratch worktree of /repo's HEAD (removed afterwards): the patch applies, the
# demonstration passes without it and fails with it, and the unedited test-suite passes with it.
set -u
SD=$1; NAME=$2; NOSUITE=${3:-}
WT=/tmp/vs/$NAME
OUT=$SD/verify.json
mkdir -p /tmp/vs
git -C /repo worktree remove --force $WT >/dev/null 2>&1
git -C /repo worktree add --detach $WT HEAD -q || exit 3
export OMP_NUM_THREADS=2 PYTHONPATH=$WT PYTHONDONTWRITEBYTECODE=1
cd $WT
cp $SD/demo_test.py $WT/_demo_test.py
/venv/bin/python -m pytest -q -p no:cacheprovider --timeout=600 _demo_test.py > $SD/verify_demo_without.log 2>&1; RC_WITHOUT=$?
git apply $SD/patch.diff; RC_APPLY=$?
/venv/bin/python -m pytest -q -p no:cacheprovider --timeout=600 _demo_test.py > $SD/verify_demo_with.log 2>&1; RC_WITH=$?
rm -f $WT/_demo_test.py
SUITE="skipped"; RC_SUITE=-1
if [ "$NOSUITE" != "--no-suite" ]; then
  /venv/bin/python -m pytest -q -p no:cacheprovider --timeout=2400 tests > $SD/verify_suite.log 2>&1; RC_SUITE=$?
  SUITE=$(tail -1 $SD/verify_suite.log)
fi
cat > $OUT <<JSON
{"name": "$NAME", "head": "$(git -C /repo rev-parse --short HEAD)", "apply_rc": $RC_APPLY,
 "demo_without_rc": $RC_WITHOUT, "demo_without": "$(tail -1 $SD/verify_demo_without.log | tr -d '"=' )",
 "demo_with_rc": $RC_WITH, "demo_with": "$(tail -1 $SD/verify_demo_with.log | tr -d '"=')",
 "suite_rc": $RC_SUITE, "suite": "$(echo $SUITE | tr -d '"=')"}
JSON
cd /
git -C /repo worktree remove --force $WT
cat $OUT
