#!/venv/bin/python
"""usage: gen_r8_canon.py [root]
Writes sa/rules/r8_canon.json: for every guard of the R8 tables, the canonical form (sa/canon.py:
locals replaced by the definitions that reach the condition) of each condition text the table uses,
computed on the tree the tables were written against (/repo at the time this is run).  The file is
committed; checks never regenerate it."""
import ast, json, os, sys
sys.path.insert(0, os.path.dirname(os.path.dirname(os.path.abspath(__file__))))
from sa.core import Ctx
from sa.cfg import build_cfg
from sa.canon import FlowCanon
from sa.rules import r8

root = sys.argv[1] if len(sys.argv) > 1 else None
ctx = Ctx(root)
guards = []
for name in dir(r8):
    v = getattr(r8, name)
    if name.startswith("GUARDS_") and isinstance(v, list):
        guards += v
guards += r8.EXTRA_CANON_SPECS
out = {}
for sp in guards:
    f = ctx.repo.func(sp.func)
    g = build_cfg(f.node)
    fc = FlowCanon(g)
    env = {}
    for key in sp.env:
        alts = set()
        for n, s in g.stmts.items():
            test = getattr(s, "test", None) if isinstance(s, (ast.If, ast.While, ast.Assert)) else None
            if test is None:
                continue
            for x in ast.walk(test):
                if isinstance(x, ast.expr) and ast.unparse(x) == key:
                    c = fc.text(x, n)
                    if c != key:
                        alts.add(c)
        if alts:
            env[key] = sorted(alts)
    loops = []
    if sp.loop is not None:
        for n, s in g.stmts.items():
            if isinstance(s, (ast.For, ast.While)):
                it = s.iter if isinstance(s, ast.For) else s.test
                if sp.loop in ast.unparse(it):
                    loops.append(fc.text(it, n))
    out[f"{sp.func}::{sp.label}"] = {"env": env, "loops": sorted(set(loops))}
p = os.path.join(os.path.dirname(os.path.dirname(os.path.abspath(__file__))), "sa", "rules", "r8_canon.json")
json.dump(out, open(p, "w"), indent=1, sort_keys=True)
print("wrote", p, len(out), "guards;", sum(len(v["env"]) for v in out.values()), "canonicalised keys")
