#!/venv/bin/python
"""usage: seedcheck.py <patch.diff> [Cxx ...]
Applies the patch to a scratch worktree of /repo's HEAD (removed afterwards), runs the quick tier of
the given (default: all claimed) properties against it with --root, and prints which properties
report a VIOLATION / ANALYSIS-ERROR.  Evidence files are not written."""
import json, os, subprocess, sys, tempfile, shutil
sys.path.insert(0, os.path.dirname(os.path.dirname(os.path.abspath(__file__))))
from sa.check import evaluate
from sa.core import load_known_findings

def main():
    patch = os.path.abspath(sys.argv[1])
    pids = sys.argv[2:]
    if not pids:
        man = json.load(open('/verif/MANIFEST.json'))
        pids = [c['property_id'] for c in man['checks']]
        extra = [f[:-3] for f in sorted(os.listdir('/verif/sa/props')) if f.startswith('C') and f.endswith('.py')]
        pids = sorted(set(pids) | set(extra))
    wt = tempfile.mkdtemp(prefix='seedchk_')
    os.rmdir(wt)
    subprocess.run(['git', '-C', '/repo', 'worktree', 'add', '--detach', wt, 'HEAD', '-q'], check=True)
    try:
        r = subprocess.run(['git', '-C', wt, 'apply', patch])
        if r.returncode:
            print('PATCH DOES NOT APPLY'); return 3
        known = {(k['property'], k['key']) for k in load_known_findings() if k.get('status') == 'known'}
        fired = {}
        for pid in pids:
            spec, ctx, obs, errors = evaluate(pid, 'quick', wt)
            v = [o for o in obs if o.status == 'violation' and (pid, o.key) not in known]
            if v or errors:
                fired[pid] = ([o.line().replace(wt + '/', '') for o in v], errors)
        for pid, (v, e) in fired.items():
            for l in v: print(f'{pid} VIOLATION {l[:400]}')
            for l in e: print(f'{pid} ANALYSIS-ERROR {l[:300]}')
        print('FIRED:', ' '.join(sorted(fired)) or '(none)')
    finally:
        subprocess.run(['git', '-C', '/repo', 'worktree', 'remove', '--force', wt])
    return 0
sys.exit(main())
