#!/venv/bin/python
"""usage: qa_variants.py <kind> <out_dir>      kind: rename | shift | black | partial-rename
Builds a behaviour-preserving variant of /repo/cirkit under <out_dir>/cirkit (development aid, not a
registered check): every check must stay silent on it (python -m sa.check Cxx --root <out_dir>).
  rename          every local variable of every function without nested scopes gets a new name
  partial-rename  only the locals bound by for-loops are renamed, each loop separately
  shift           two comment lines are inserted at the top of every file (all line numbers move)
"""
import ast, pathlib, shutil, sys
kind, out = sys.argv[1], pathlib.Path(sys.argv[2])
if out.exists():
    shutil.rmtree(out)
out.mkdir(parents=True)
shutil.copytree('/repo/cirkit', out / 'cirkit')

def has_nested(fn):
    return any(n is not fn and isinstance(n, (ast.FunctionDef, ast.AsyncFunctionDef, ast.Lambda, ast.ClassDef)) for n in ast.walk(fn))

class R(ast.NodeTransformer):
    def __init__(self, names, suffix): self.names, self.suffix = names, suffix
    def visit_Name(self, n):
        if n.id in self.names: n.id = n.id + self.suffix
        return n

n_fn = n_names = 0
for p in (out / 'cirkit').rglob('*.py'):
    src = p.read_text()
    if kind == 'shift':
        p.write_text('# shifted\n# shifted again\n' + src); continue
    t = ast.parse(src)
    for fn in [n for n in ast.walk(t) if isinstance(n, ast.FunctionDef)]:
        if has_nested(fn): continue
        params = {a.arg for a in fn.args.posonlyargs + fn.args.args + fn.args.kwonlyargs}
        if fn.args.vararg: params.add(fn.args.vararg.arg)
        if fn.args.kwarg: params.add(fn.args.kwarg.arg)
        decl = set()
        for n in ast.walk(fn):
            if isinstance(n, (ast.Global, ast.Nonlocal)): decl |= set(n.names)
        if kind == 'rename':
            stored = {n.id for n in ast.walk(fn) if isinstance(n, ast.Name) and isinstance(n.ctx, (ast.Store, ast.Del))}
            names = stored - params - decl
            if not names: continue
            n_fn += 1; n_names += len(names)
            for st in fn.body: R(names, '_rn').visit(st)
        elif kind == 'partial-rename':
            # each top-level for loop of the function body: rename its own target names inside the loop only,
            # when the name is not used after the loop and not bound elsewhere in the function
            k = 0
            for st in fn.body:
                if isinstance(st, ast.For):
                    tg = {n.id for n in ast.walk(st.target) if isinstance(n, ast.Name)} - params - decl
                    others = [x for x in fn.body if x is not st]
                    used_elsewhere = {n.id for x in others for n in ast.walk(x) if isinstance(n, ast.Name)}
                    tg -= used_elsewhere
                    if tg:
                        k += 1; n_names += len(tg)
                        R(tg, f'_l{k}').visit(st)
            n_fn += bool(k)
    p.write_text(ast.unparse(t))
print(kind, 'functions', n_fn, 'names', n_names)
