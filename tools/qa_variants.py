#!/venv/bin/python
"""usage: qa_variants.py <kind> <out_dir>      kind: rename | shift | black | partial-rename
Builds a behaviour-preserving variant of /repo/cirkit under <out_dir>/cirkit (development aid, not a
registered check): every check must stay silent on it (python -m sa.check Cxx --root <out_dir>).
  rename          every local variable of every function without nested scopes gets a new name
  partial-rename  only the locals bound by for-loops are renamed, each loop separately
  shift           two comment lines are inserted at the top of every file (all line numbers move)
  hoist           every `if <test>:` becomes `_cN = <test>; if _cN:` and every `return <call>` becomes
                  `_rN = <call>; return _rN` (conditions and results bound to locals first)
  swap-branches   every `if c: A else: B` (B not an elif chain) becomes `if not c: B else: A`
  kwargs          the keyword arguments of every call are written in reverse order
  reorder-methods the methods of every class are listed in reverse order (classes with property
                  setters / overloads are left alone)
"""
import ast, pathlib, shutil, sys
kind, out = sys.argv[1], pathlib.Path(sys.argv[2])
if out.exists():
    shutil.rmtree(out)
out.mkdir(parents=True)
shutil.copytree('/repo/cirkit', out / 'cirkit')

def has_nested(fn):
    return any(n is not fn and isinstance(n, (ast.FunctionDef, ast.AsyncFunctionDef, ast.Lambda, ast.ClassDef)) for n in ast.walk(fn))

class R(ast.NodeTransformer):
    def __init__(self, names, suffix): self.names, self.suffix = names, suffix
    def visit_Name(self, n):
        if n.id in self.names: n.id = n.id + self.suffix
        return n

n_fn = n_names = 0
for p in (out / 'cirkit').rglob('*.py'):
    src = p.read_text()
    if kind == 'shift':
        p.write_text('# shifted\n# shifted again\n' + src); continue
    t = ast.parse(src)
    if kind == 'hoist':
        cnt = [0]
        def hoist_block(stmts):
            out = []
            for st in stmts:
                for f_ in ('body', 'orelse', 'finalbody'):
                    if hasattr(st, f_) and isinstance(getattr(st, f_), list) and not isinstance(st, (ast.FunctionDef, ast.ClassDef, ast.AsyncFunctionDef)):
                        setattr(st, f_, hoist_block(getattr(st, f_)))
                if isinstance(st, ast.Try):
                    for h in st.handlers: h.body = hoist_block(h.body)
                if isinstance(st, ast.If) and not isinstance(st.test, ast.Name):
                    cnt[0] += 1; nm = f'_c{cnt[0]}'
                    out.append(ast.Assign(targets=[ast.Name(id=nm, ctx=ast.Store())], value=st.test, lineno=st.lineno))
                    st.test = ast.Name(id=nm, ctx=ast.Load())
                if isinstance(st, ast.Return) and isinstance(st.value, ast.Call):
                    cnt[0] += 1; nm = f'_r{cnt[0]}'
                    out.append(ast.Assign(targets=[ast.Name(id=nm, ctx=ast.Store())], value=st.value, lineno=st.lineno))
                    st.value = ast.Name(id=nm, ctx=ast.Load())
                out.append(st)
            return out
        for fn in [n for n in ast.walk(t) if isinstance(n, ast.FunctionDef)]:
            if has_nested(fn): continue
            if any(isinstance(n, (ast.Yield, ast.YieldFrom)) for n in ast.walk(fn)): continue
            fn.body = hoist_block(fn.body); n_fn += 1
        ast.fix_missing_locations(t)
        p.write_text(ast.unparse(t)); continue
    if kind == 'swap-branches':
        for c in [n for n in ast.walk(t) if isinstance(n, ast.If)]:
            if c.orelse and not (len(c.orelse) == 1 and isinstance(c.orelse[0], ast.If)):
                c.test = ast.UnaryOp(op=ast.Not(), operand=c.test)
                c.body, c.orelse = c.orelse, c.body; n_fn += 1
        ast.fix_missing_locations(t)
        p.write_text(ast.unparse(t)); continue
    if kind == 'kwargs':
        for c in [n for n in ast.walk(t) if isinstance(n, ast.Call)]:
            if len(c.keywords) >= 2 and all(k.arg is not None for k in c.keywords):
                c.keywords = list(reversed(c.keywords)); n_fn += 1
        p.write_text(ast.unparse(t)); continue
    if kind == 'reorder-methods':
        for c in [n for n in ast.walk(t) if isinstance(n, ast.ClassDef)]:
            fns = [x for x in c.body if isinstance(x, ast.FunctionDef)]
            if any(isinstance(d, ast.Attribute) and d.attr in ('setter', 'deleter') or (isinstance(d, ast.Name) and d.id == 'overload') for f in fns for d in f.decorator_list):
                continue
            if len(fns) < 2: continue
            it = iter(reversed(fns))
            c.body = [next(it) if isinstance(x, ast.FunctionDef) else x for x in c.body]
            n_fn += 1
        p.write_text(ast.unparse(t)); continue
    for fn in [n for n in ast.walk(t) if isinstance(n, ast.FunctionDef)]:
        if has_nested(fn): continue
        params = {a.arg for a in fn.args.posonlyargs + fn.args.args + fn.args.kwonlyargs}
        if fn.args.vararg: params.add(fn.args.vararg.arg)
        if fn.args.kwarg: params.add(fn.args.kwarg.arg)
        decl = set()
        for n in ast.walk(fn):
            if isinstance(n, (ast.Global, ast.Nonlocal)): decl |= set(n.names)
        if kind == 'rename':
            stored = {n.id for n in ast.walk(fn) if isinstance(n, ast.Name) and isinstance(n.ctx, (ast.Store, ast.Del))}
            names = stored - params - decl
            if not names: continue
            n_fn += 1; n_names += len(names)
            for st in fn.body: R(names, '_rn').visit(st)
        elif kind == 'partial-rename':
            # each top-level for loop of the function body: rename its own target names inside the loop only,
            # when the name is not used after the loop and not bound elsewhere in the function
            k = 0
            for st in fn.body:
                if isinstance(st, ast.For):
                    tg = {n.id for n in ast.walk(st.target) if isinstance(n, ast.Name)} - params - decl
                    others = [x for x in fn.body if x is not st]
                    used_elsewhere = {n.id for x in others for n in ast.walk(x) if isinstance(n, ast.Name)}
                    tg -= used_elsewhere
                    if tg:
                        k += 1; n_names += len(tg)
                        R(tg, f'_l{k}').visit(st)
            n_fn += bool(k)
    p.write_text(ast.unparse(t))
print(kind, 'functions', n_fn, 'names', n_names)
