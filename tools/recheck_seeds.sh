#!/bin/bash
# usage: recheck_seeds.sh [ids...]   -- for every kept seed: scratch worktree of /repo HEAD, demo without
# the patch, apply, demo with the patch (no suite); appends the outcome to seeded/<id>/meta.json as
# "rechecked_on_head".  Development aid (the suites were run when each seed was first verified).
cd /verif
IDS=${@:-$(ls seeded)}
export OMP_NUM_THREADS=2 PYTHONDONTWRITEBYTECODE=1
run_one() {
  id=$1; WT=/tmp/rs/$id; mkdir -p /tmp/rs
  git -C /repo worktree remove --force $WT >/dev/null 2>&1
  git -C /repo worktree add --detach $WT HEAD -q || return
  cp /verif/seeded/$id/demo_test.py $WT/_demo_test.py
  ( cd $WT; PYTHONPATH=$WT /venv/bin/python -m pytest -q -p no:cacheprovider --timeout=900 _demo_test.py > /tmp/rs/$id.without.log 2>&1; echo $? > /tmp/rs/$id.rc0
    git apply /verif/seeded/$id/patch.diff; echo $? > /tmp/rs/$id.rca
    PYTHONPATH=$WT /venv/bin/python -m pytest -q -p no:cacheprovider --timeout=900 _demo_test.py > /tmp/rs/$id.with.log 2>&1; echo $? > /tmp/rs/$id.rc1 )
  git -C /repo worktree remove --force $WT >/dev/null 2>&1
  /venv/bin/python - $id <<'PY'
import json, sys, subprocess
i=sys.argv[1]
rc0,rca,rc1=[int(open(f'/tmp/rs/{i}.{k}').read()) for k in ('rc0','rca','rc1')]
head=subprocess.run(['git','-C','/repo','rev-parse','--short','HEAD'],capture_output=True,text=True).stdout.strip()
p=f'/verif/seeded/{i}/meta.json'; m=json.load(open(p))
m['rechecked_on_head']={'head':head,'patch_applies':rca==0,'demo_without_change':open(f'/tmp/rs/{i}.without.log').read().strip().split('\n')[-1].strip('= '),'demo_with_change':open(f'/tmp/rs/{i}.with.log').read().strip().split('\n')[-1].strip('= '),'still_breaks':rca==0 and rc0==0 and rc1!=0}
json.dump(m,open(p,'w'),indent=1)
print(i, 'OK' if m['rechecked_on_head']['still_breaks'] else 'PROBLEM', m['rechecked_on_head'])
PY
}
export -f run_one
echo $IDS | tr ' ' '\n' | xargs -P 6 -I{} bash -c 'run_one {}'
