#!/venv/bin/python
"""usage: keep_seed.py <seed_out dir (patch.diff, demo_test.py, meta.json, verify.json)> <seed id>
Copies a *verified* seeded change into /verif/seeded/<id>/ and writes its meta.json: the property it
breaks, what it needs to manifest, what was run to confirm it (from verify.json, produced by
tools/verify_seed.sh in a scratch worktree), and which registered checks report it (computed now by
applying the patch to a scratch worktree: tools/seedcheck.py)."""
import json, os, shutil, subprocess, sys
src, sid = sys.argv[1], sys.argv[2]
ver = json.load(open(os.path.join(src, 'verify.json')))
ok = ver['apply_rc'] == 0 and ver['demo_without_rc'] == 0 and ver['demo_with_rc'] != 0 and ver['suite_rc'] == 0 and '323 passed' in ver['suite']
if not ok:
    print('NOT KEPT (verification incomplete):', ver); sys.exit(1)
dst = f'/verif/seeded/{sid}'
os.makedirs(dst, exist_ok=True)
shutil.copy(os.path.join(src, 'patch.diff'), dst)
shutil.copy(os.path.join(src, 'demo_test.py'), dst)
agent = json.load(open(os.path.join(src, 'meta.json')))
out = subprocess.run(['/venv/bin/python', '/verif/tools/seedcheck.py', os.path.join(dst, 'patch.diff')], capture_output=True, text=True).stdout
fired = [l for l in out.splitlines() if l.startswith('FIRED:')][0].split(':', 1)[1].split()
fired = [f for f in fired if f != '(none)']
viol = [l[:300] for l in out.splitlines() if ' VIOLATION ' in l][:6]
meta = {
    'seed_id': sid,
    'property': agent.get('property'),
    'title': agent.get('title'),
    'files_changed': agent.get('files_changed'),
    'what_breaks': agent.get('what_breaks'),
    'needs_to_manifest': agent.get('needs_to_manifest'),
    'why_tests_miss_it': agent.get('why_tests_miss_it'),
    'origin': 'fresh sub-agent given only the property text and a scratch worktree of /repo (no access to /verif)',
    'confirmed_by_me': {
        'how': 'tools/verify_seed.sh in a scratch git worktree of /repo HEAD (removed afterwards): demo without the patch, git apply, demo with the patch, full unedited test-suite with the patch',
        'repo_head': ver['head'],
        'demo_without_change': ver['demo_without'],
        'demo_with_change': ver['demo_with'],
        'full_suite_with_change': ver['suite'],
    },
    'detected_by': fired,
    'detection_report': viol,
}
json.dump(meta, open(os.path.join(dst, 'meta.json'), 'w'), indent=1)
print('kept', sid, 'detected_by', fired)
